/-
C17 — Indexed table queries return exactly what a full scan would.

Executable model of `coba/results/core.py`: `MissingType`, `my_bisect_left/right`, `View`
(`_try_slice`, `ListView`, `SliceView`, view-of-view composition) and `Table`
(`insert`, `index`, `_calc_lohis`, `_sub_lohis`, `where`, `_compare`, `groupby`, `copy`),
written as the code is written (column-major, `_indexes`, lohis recomputed from the data), plus
the specification: a table is a list of rows; `where` is a row-by-row filter, `index` a stable
lexicographic sort, `groupby` the maximal runs of equal index prefix.

Import-free (core Lean only): this file is compiled into the driver executable.

The switches in `Cfg` select between the code as it is in the pinned tree (all `false`) and the
code with the proposed repairs `fixes/C17-*.diff` (all `true`); the harness finds out which
variant the tree under test implements and tells the driver.
-/

namespace Coba.C17

/-! ## Values and Python's comparisons -/

inductive Err
  | typeError | indexError | keyError | assertionError | other
  deriving DecidableEq, Repr, Inhabited

/-- which of the proposed repairs the modelled code contains -/
structure Cfg where
  /-- P8  `for v,_ in groupby(sorted(arg))`: equal probes of `in` are looked up once on the bisect path -/
  dedupIn : Bool := false
  /-- P9  `'!in'` is among the operator keys unpacked from `{op: value}` -/
  notinKey : Bool := false
  /-- P10 the operator taken from a dict argument is local to its keyword -/
  localOp : Bool := false
  /-- P12 `my_bisect_*` do not look at `c[l]` / `c[h-1]` of an empty segment -/
  guardEmpty : Bool := false
  /-- P14 `index` drops repeated column names -/
  dedupIdx : Bool := false
  /-- P11 `Missing <= x` is False and `x <= Missing` is True instead of raising (`MissingType.__le__/__ge__`) -/
  missingLe : Bool := false
  /-- P11 `Missing >= x` is True and `x >= Missing` is False instead of raising -/
  missingGe : Bool := false
  /-- `match` on an empty column returns no rows instead of looking at `col[0]` -/
  matchEmpty : Bool := false
  /-- `insert([{},{},…])` pads with as many rows as there are dicts (the pinned code pads one) -/
  dictLen : Bool := false
  /-- P13 `insert` into an indexed table looks at the new rows and sorts again if they are out of index
  order (drops the index if they cannot be ordered) -/
  resortInsert : Bool := false
  /-- a probe that cannot be ordered against an indexed column: the `TypeError` of the bisection is
  caught and the keyword answered by the scan -/
  bisectFallback : Bool := false
  /-- `!in` marks the ends of the sorted probes with a private object instead of `None` -/
  notinSentinel : Bool := false
  /-- `match` is decided cell by cell (`matchCell`) instead of from the first cell of the column -/
  matchPerCell : Bool := false
  deriving Repr, DecidableEq

def Cfg.unfixed : Cfg := {}
/-- the tree after the first eight repairs (coba 5728f9e) -/
def Cfg.committed : Cfg :=
  { dedupIn := true, notinKey := true, localOp := true, guardEmpty := true, dedupIdx := true,
    missingLe := true, missingGe := true, matchEmpty := true, dictLen := true }
/-- the tree with every repair of `fixes/C17-*.diff` -/
def Cfg.fixed : Cfg :=
  { dedupIn := true, notinKey := true, localOp := true, guardEmpty := true, dedupIdx := true,
    missingLe := true, missingGe := true, matchEmpty := true, dictLen := true,
    resortInsert := true, bisectFallback := true, notinSentinel := true, matchPerCell := true }

/-- a table cell; strings are lists of code points -/
inductive Cell
  | none | missing | int (i : Int) | flt (q : Rat) | str (s : List Nat)
  deriving DecidableEq, Repr, Inhabited

/-- what comparisons see of a cell: `1 == 1.0`, so ints and floats share the numeric key -/
inductive Key
  | num (q : Rat) | str (s : List Nat) | none | missing
  deriving DecidableEq, Repr

def Cell.key : Cell → Key
  | .none => .none
  | .missing => .missing
  | .int i => .num (i : Rat)
  | .flt q => .num q
  | .str s => .str s

/-- lexicographic `<` on code-point lists (Python `str.__lt__`) -/
def strLt : List Nat → List Nat → Bool
  | _, [] => false
  | [], _ :: _ => true
  | a :: as, b :: bs => if a < b then true else if a = b then strLt as bs else false

def Key.rank : Key → Nat
  | .num _ => 0 | .str _ => 1 | .none => 2 | .missing => 3

/-- a total strict order on keys that agrees with Python's `<` wherever Python does not raise
(numbers < strings < None < Missing is only used where Python raises or for `Missing`) -/
def Key.lt : Key → Key → Bool
  | .num a, .num b => decide (a < b)
  | .str a, .str b => strLt a b
  | a, b => decide (a.rank < b.rank)

/-- `a < b` does not raise: same kind, or `Missing` on either side -/
def Key.comparable : Key → Key → Bool
  | .missing, _ => true
  | _, .missing => true
  | .num _, .num _ => true
  | .str _, .str _ => true
  | _, _ => false

/-- Python `a < b` with `MissingType.__lt__ = False`, reflected `__gt__ = True` -/
def pyLt (a b : Cell) : Except Err Bool :=
  if a.key.comparable b.key then .ok (a.key.lt b.key) else .error .typeError

/-- Python `a > b` (`Missing > x` is True even for `x = Missing`) -/
def pyGt (a b : Cell) : Except Err Bool :=
  if a.key = .missing then .ok true
  else if b.key = .missing then .ok false
  else if a.key.comparable b.key then .ok (b.key.lt a.key) else .error .typeError

/-- Python `a <= b`; `MissingType` has no `__le__`/`__ge__` in the pinned tree -/
def pyLe (cfg : Cfg) (a b : Cell) : Except Err Bool :=
  if a.key = .missing then (if cfg.missingLe then .ok false else .error .typeError)
  else if b.key = .missing then (if cfg.missingLe then .ok true else .error .typeError)
  else if a.key.comparable b.key then .ok (!(b.key.lt a.key)) else .error .typeError

def pyGe (cfg : Cfg) (a b : Cell) : Except Err Bool :=
  if a.key = .missing then (if cfg.missingGe then .ok true else .error .typeError)
  else if b.key = .missing then (if cfg.missingGe then .ok false else .error .typeError)
  else if a.key.comparable b.key then .ok (!(a.key.lt b.key)) else .error .typeError

/-- Python `a == b` (never raises): numeric equality across int/float, `Missing == None` -/
def pyEq (a b : Cell) : Bool :=
  match a.key, b.key with
  | .num x, .num y => decide (x = y)
  | .str s, .str t => decide (s = t)
  | .none, .none => true
  | .none, .missing => true
  | .missing, .none => true
  | .missing, .missing => true
  | _, _ => false

def pyIn (c : Cell) (vs : List Cell) : Bool := vs.any (pyEq c)

/-- the cell at `i` (only used below `xs.length`) -/
def cellAt (xs : List Cell) (i : Nat) : Cell := xs.getD i .missing

/-! ## sorted() -/

/-- two values of a list handed to `sorted` can be told apart only by comparing them or by
comparing each with something else; `Missing` compares with everything, so `sorted` raises
exactly when two non-`Missing` members are incomparable (checked against CPython by the harness) -/
def allComparable : List Cell → Bool
  | [] => true
  | x :: xs => xs.all (fun y => x.key.comparable y.key) && allComparable xs

/-- insert `x` (which came first) in front of the first element that is not smaller -/
def insertBy {α} (lt : α → α → Bool) (x : α) : List α → List α
  | [] => [x]
  | y :: ys => if lt y x then y :: insertBy lt x ys else x :: y :: ys

/-- stable insertion sort: the unique stable arrangement for a strict weak order -/
def sortBy {α} (lt : α → α → Bool) : List α → List α
  | [] => []
  | x :: xs => insertBy lt x (sortBy lt xs)

/-- `sorted(xs, key=k)` for row numbers `xs` -/
def pySortedBy (k : Nat → Cell) (xs : List Nat) : Except Err (List Nat) :=
  if allComparable (xs.map k) then .ok (sortBy (fun i j => (k i).key.lt (k j).key) xs)
  else .error .typeError

/-- `sorted(vs)` for probe values -/
def pySorted (vs : List Cell) : Except Err (List Cell) :=
  if allComparable vs then .ok (sortBy (fun a b => a.key.lt b.key) vs) else .error .typeError

/-- `sorted(set(xs))` on row numbers -/
def insertNat (x : Nat) : List Nat → List Nat
  | [] => [x]
  | y :: ys => if x < y then x :: y :: ys else if x = y then y :: ys else y :: insertNat x ys

def sortDedupNat : List Nat → List Nat
  | [] => []
  | x :: xs => insertNat x (sortDedupNat xs)

/-- keys of `itertools.groupby(vs)`: the first of every run of `==` values -/
def dedupAdjAux (k : Cell) : List Cell → List Cell
  | [] => []
  | y :: ys => if pyEq k y then dedupAdjAux k ys else y :: dedupAdjAux y ys

def dedupAdj : List Cell → List Cell
  | [] => []
  | x :: xs => x :: dedupAdjAux x xs

def dedupNat : List Nat → List Nat
  | [] => []
  | x :: xs => x :: (dedupNat xs).filter (fun y => !(x == y))

/-! ## Views -/

/-- `View._select`: absent (the table owns its columns), a slice, or a list of row numbers -/
inductive Sel
  | all | slice (start stop : Nat) | list (ix : List Nat)
  deriving DecidableEq, Repr

def optGet {α} (o : Option α) : Except Err α :=
  match o with
  | some a => .ok a
  | Option.none => .error .indexError

/-- a column as `where`/`_sub_lohis` see it: a list, a `SliceView` or a `ListView` -/
structure Seq where
  base : List Cell
  sel : Sel
  deriving Repr

def Seq.len (s : Seq) : Nat :=
  match s.sel with
  | .all => s.base.length
  | .slice a b => b - a
  | .list ix => ix.length

/-- `s[i]` for `i ≥ 0` -/
def Seq.get (s : Seq) (i : Nat) : Except Err Cell :=
  match s.sel with
  | .all => optGet s.base[i]?
  | .slice a _ => optGet s.base[a + i]?
  | .list ix => do let j ← optGet ix[i]?; optGet s.base[j]?

/-- `s[-1]` -/
def Seq.getLast (s : Seq) : Except Err Cell :=
  match s.sel with
  | .all => optGet s.base.getLast?
  | .slice a _ => if a = 0 then optGet s.base.getLast? else optGet s.base[a - 1]?
  | .list ix => do let j ← optGet ix.getLast?; optGet s.base[j]?

/-- `list(s)` / `s[0:len(s)]` -/
def Seq.toList (s : Seq) : Except Err (List Cell) :=
  match s.sel with
  | .all => .ok s.base
  | .slice a b => .ok ((s.base.drop a).take (b - a))
  | .list ix => ix.mapM (fun j => optGet s.base[j]?)

/-- `View._try_slice` -/
def trySlice (sel : List Nat) : Sel :=
  match sel, sel.getLast? with
  | a :: _, some l => if (l : Int) - (a : Int) + 1 = (sel.length : Int) then .slice a (l + 1) else .list sel
  | _, _ => .list sel

/-- `View(data, select)._select` for a list `select`, `data` a dict (`.all`) or a `View` -/
def composeSel (old : Sel) (select : List Nat) : Except Err Sel :=
  match old with
  | .all => .ok (trySlice select)
  | .slice a _ => .ok (trySlice (select.map (a + ·)))
  | .list ix => do let l ← select.mapM (fun i => optGet ix[i]?); .ok (trySlice l)

/-! ## bisect -/

/-- the loop shared by `bisect_left` (`p mid = a[mid] < x`) and `bisect_right`
(`p mid = not (x < a[mid])`): `while lo < hi: mid=(lo+hi)//2; if p(mid): lo=mid+1 else: hi=mid` -/
def bisectLoop (p : Nat → Except Err Bool) : Nat → Nat → Nat → Except Err Nat
  | 0, lo, _ => .ok lo
  | fuel + 1, lo, hi =>
    if lo < hi then
      match p ((lo + hi) / 2) with
      | .error e => .error e
      | .ok true => bisectLoop p fuel ((lo + hi) / 2 + 1) hi
      | .ok false => bisectLoop p fuel lo ((lo + hi) / 2)
    else .ok lo

def bisectLeft (get : Nat → Except Err Cell) (x : Cell) (lo hi : Nat) : Except Err Nat :=
  bisectLoop (fun m => do let c ← get m; pyLt c x) (hi - lo) lo hi

def bisectRight (get : Nat → Except Err Cell) (x : Cell) (lo hi : Nat) : Except Err Nat :=
  bisectLoop (fun m => do let c ← get m; let b ← pyLt x c; pure (!b)) (hi - lo) lo hi

/-- `my_bisect_left(c,a,l,h) = l if c[l]==a else bisect_left(c,a,l,h)` -/
def myBisectLeft (cfg : Cfg) (s : Seq) (x : Cell) (lo hi : Nat) : Except Err Nat :=
  if cfg.guardEmpty && decide (hi ≤ lo) then bisectLeft s.get x lo hi
  else do
    let c ← s.get lo
    if pyEq c x then pure lo else bisectLeft s.get x lo hi

/-- `my_bisect_right(c,a,l,h) = h if c[h-1]==a else bisect_right(c,a,l,h)` -/
def myBisectRight (cfg : Cfg) (s : Seq) (x : Cell) (lo hi : Nat) : Except Err Nat :=
  if cfg.guardEmpty && decide (hi ≤ lo) then bisectRight s.get x lo hi
  else do
    let c ← if hi = 0 then s.getLast else s.get (hi - 1)
    if pyEq c x then pure hi else bisectRight s.get x lo hi

/-! ## Tables -/

structure Table where
  /-- `_columns` -/
  columns : List Nat
  /-- the dict of column lists owned by the table (or by the table this one is a view of) -/
  data : List (Nat × List Cell)
  /-- `.all`: `_data` is that dict; otherwise `_data` is a `View` of it -/
  sel : Sel
  /-- `_indexes` -/
  indexes : List Nat
  deriving Repr

def lookupCol (data : List (Nat × List Cell)) (c : Nat) : Except Err (List Cell) :=
  match data.find? (fun p => p.1 == c) with
  | some p => .ok p.2
  | Option.none => .error .keyError

/-- `self._data[c]` -/
def Table.col (t : Table) (c : Nat) : Except Err Seq := do
  let b ← lookupCol t.data c
  pure { base := b, sel := t.sel }

/-- `len(self)`: length of the first column of `_data` -/
def Table.len (t : Table) : Except Err Nat :=
  match t.data with
  | [] => if t.sel = .all then .ok 0 else .error .other
  | (_, b) :: _ => .ok (Seq.len { base := b, sel := t.sel })

def minLen : List (List Cell) → Nat
  | [] => 0
  | [c] => c.length
  | c :: cs => min c.length (minLen cs)

/-- `list(self)`: `zip(*[self._data[c] for c in self._columns])` -/
def Table.rows (t : Table) : Except Err (List (List Cell)) := do
  let cols ← t.columns.mapM (fun c => do let s ← t.col c; s.toList)
  let n := minLen cols
  pure ((List.range n).map (fun i => cols.map (fun c => c.getD i .missing)))

/-- `_sub_lohis`: split `[lo,hi)` into the runs found by `my_bisect_right` -/
def subLohis (cfg : Cfg) (s : Seq) : Nat → Nat → Nat → Except Err (List (Nat × Nat))
  | 0, _, _ => .ok []
  | fuel + 1, lo, hi =>
    if lo = hi then .ok []
    else do
      let x ← s.get lo
      let nh ← myBisectRight cfg s x lo hi
      let rest ← subLohis cfg s fuel nh hi
      pure ((lo, nh) :: rest)

def subLohisAll (cfg : Cfg) (s : Seq) : List (Nat × Nat) → Except Err (List (Nat × Nat))
  | [] => .ok []
  | (lo, hi) :: rest => do
    let a ← subLohis cfg s (hi - lo) lo hi
    let b ← subLohisAll cfg s rest
    pure (a ++ b)

/-- the list of lohis built by `_calc_lohis`, one entry per index column, given the first -/
def calcLohisAux (cfg : Cfg) (t : Table) : List Nat → List (Nat × Nat) → Except Err (List (List (Nat × Nat)))
  | [], _ => .ok []
  | [_], cur => .ok [cur]
  | k :: k2 :: rest, cur =>
    match t.col k with
    | .error e => .error e
    | .ok s =>
      match subLohisAll cfg s cur with
      | .error e => .error e
      | .ok nxt =>
        match calcLohisAux cfg t (k2 :: rest) nxt with
        | .error e => .error e
        | .ok more => .ok (cur :: more)

/-- `_calc_lohis`: `dict(zip(self._indexes, lohis))` as an association list -/
def Table.calcLohis (cfg : Cfg) (t : Table) : Except Err (List (Nat × List (Nat × Nat))) :=
  match t.indexes with
  | [] => .ok []
  | idx => do
    let n ← t.len
    let l ← calcLohisAux cfg t idx [(0, n)]
    pure (idx.zip l)

/-- `d[k]` of `dict(pairs)`: the last pair with that key -/
def dictGet {β} (d : List (Nat × β)) (k : Nat) : Except Err β :=
  match (d.reverse).find? (fun p => p.1 == k) with
  | some p => .ok p.2
  | Option.none => .error .keyError

/-! ### insert -/

inductive InsertData
  /-- sequence of rows (cells in `_columns` order) -/
  | rows (rs : List (List Cell))
  /-- sequence of dicts (ordered `(column, cell)` pairs) -/
  | dicts (ds : List (List (Nat × Cell)))
  /-- mapping column → list of cells -/
  | cols (cs : List (Nat × List Cell))
  deriving Repr

def insertNatSorted (x : Nat) : List Nat → List Nat
  | [] => [x]
  | y :: ys => if x < y then x :: y :: ys else y :: insertNatSorted x ys

def sortNat : List Nat → List Nat
  | [] => []
  | x :: xs => insertNatSorted x (sortNat xs)

def assocGet (d : List (Nat × Cell)) (k : Nat) : Cell :=
  match d.find? (fun p => p.1 == k) with
  | some p => p.2
  | Option.none => .missing

/-- `tuple(sorted(new_cols))`: the names of the mapping that are not columns yet, once each, sorted -/
def newColsOf (columns keys : List Nat) : List Nat :=
  sortNat ((dedupNat keys).filter (fun c => !(columns.contains c)))

/-- `dat_len`: given for dict rows (see `Table.insert`), else the length of the first value list -/
def padLenOf (padLen : Option Nat) (cs : List (Nat × List Cell)) : Nat :=
  match padLen, cs with
  | some n, _ => n
  | Option.none, [] => 1
  | Option.none, (_, v) :: _ => v.length

/-- `data[hdr]` (nothing if the mapping has no such key) -/
def mapValD (cs : List (Nat × List Cell)) (c : Nat) : List Cell :=
  match cs.find? (fun q => q.1 == c) with
  | some q => q.2
  | Option.none => []

/-- `for hdr in old_cols: extend(data[hdr])`, `for hdr in pad_cols: extend(repeat(Missing, dat_len))` -/
def extendOld (columns : List Nat) (cs : List (Nat × List Cell)) (datLen : Nat) (p : Nat × List Cell) : Nat × List Cell :=
  if columns.contains p.1 then
    match cs.find? (fun q => q.1 == p.1) with
    | some q => (p.1, p.2 ++ q.2)
    | Option.none => (p.1, p.2 ++ List.replicate datLen Cell.missing)
  else p

/-- insertion of a mapping of columns (the branch both dict shapes end in) -/
def insertCols (t : Table) (cs : List (Nat × List Cell)) (padLen : Option Nat) : Except Err Table :=
  let newCols := newColsOf t.columns (cs.map (·.1))
  -- if new_cols: old_len = len(self)
  match (if newCols.isEmpty then .ok 0 else t.len) with
  | .error e => .error e
  | .ok oldLen =>
    let data1 := t.data.map (extendOld t.columns cs (padLenOf padLen cs))
    -- self._data[hdr] = list(chain(repeat(Missing, old_len), data[hdr])) for the new columns
    let fresh := newCols.map (fun k => (k, List.replicate oldLen Cell.missing ++ mapValD cs k))
    -- (a new column name that is already a key of `_data` would be replaced)
    .ok { t with data := data1.filter (fun p => !(newCols.contains p.1)) ++ fresh, columns := t.columns ++ newCols }

/-- the mapping a sequence of dict rows is turned into -/
def dictsToCols (ds : List (List (Nat × Cell))) : List (Nat × List Cell) :=
  (dedupNat (ds.flatMap (fun d => d.map (·.1)))).map (fun k => (k, ds.map (fun d => assocGet d k)))

/-- `Table.insert` (only on tables that own their data) -/
def Table.insertRaw (cfg : Cfg) (t : Table) (d : InsertData) : Except Err Table :=
  match d with
  | .rows [] => .ok t
  | .dicts [] => .ok t
  | .cols [] => .ok t
  | .dicts ds =>
    insertCols t (dictsToCols ds)
      (if cfg.dictLen then some ds.length else if (dictsToCols ds).isEmpty then some 1 else Option.none)
  | .cols cs => insertCols t cs Option.none
  | .rows (r :: rs) =>
    if r.length ≠ t.columns.length then .error .assertionError
    else if (rs.all (fun r' => r'.length == t.columns.length)) = false then .error .other
    else
      let cols := t.columns.zipIdx
      .ok { t with data := t.data.map (fun (p : Nat × List Cell) =>
        match cols.find? (fun c => c.1 == p.1) with
        | some c => (p.1, p.2 ++ (r :: rs).map (fun row => row.getD c.2 .missing))
        | Option.none => p) }

def InsertData.isEmpty : InsertData → Bool
  | .rows rs => rs.isEmpty
  | .dicts ds => ds.isEmpty
  | .cols cs => cs.isEmpty

/-- outcome of comparing two rows / a run of rows on the index columns with `<` only -/
inductive Ord3
  | le | gt | cannot
  deriving DecidableEq, Repr

/-- the inner loop of `_in_index_order` for rows `i` (earlier) and `j`:
`if col[i] < col[j]: break` / `if col[j] < col[i]: return False` / `except TypeError: return None` -/
def rowOrd : List (List Cell) → Nat → Nat → Ord3
  | [], _, _ => .le
  | c :: rest, i, j =>
    match pyLt (cellAt c i) (cellAt c j) with
    | .error _ => .cannot
    | .ok true => .le
    | .ok false =>
      match pyLt (cellAt c j) (cellAt c i) with
      | .error _ => .cannot
      | .ok true => .gt
      | .ok false => rowOrd rest i j

/-- `for i in range(start+1, len(self))`: `k` rows still to look at, the next one is `i` -/
def tailOrd (cols : List (List Cell)) : Nat → Nat → Ord3
  | 0, _ => .le
  | k + 1, i =>
    match rowOrd cols (i - 1) i with
    | .le => tailOrd cols k (i + 1)
    | o => o

def allIn (lo hi : Nat) (p : Nat → Bool) : Bool := (List.range' lo (hi - lo)).all p

/-- `c and c[0] is not None and c[0] is not Missing and c.count(c[0]) == len(c)` for `c = col[lo:hi]`
(`==`: `MissingType.__eq__(None)` is True and `Missing > x` is True for every `x`, which is why the
shortcut is not taken when `None` / `Missing` lead) -/
def constFrom (c : List Cell) (lo hi : Nat) : Bool :=
  decide (lo < hi) && (cellAt c lo).key != Key.none && (cellAt c lo).key != Key.missing &&
  allIn lo hi (fun x => pyEq (cellAt c lo) (cellAt c x))

/-- `all(map(is_, last, sorted(last)))` for `last = col[lo:hi]`: `sorted` is stable, so it returns the
very same objects in the very same places exactly when no later cell is smaller than an earlier one;
it raises when two cells cannot be ordered -/
def sortedFrom (c : List Cell) (lo hi : Nat) : Ord3 :=
  match pySortedBy (cellAt c) (List.range' lo (hi - lo)) with
  | .error _ => .cannot
  | .ok p => if p = List.range' lo (hi - lo) then .le else .gt

/-- `_in_index_order(n_old)` on the index columns `cols` of a table of `n` rows: the boundary pair
(last old row, first new row) with `<` only; then, when the new rows agree on all but the last index
column, one `sorted` of the last column; otherwise the row-by-row `<` loop over the new rows -/
def inIndexOrderOf (cols : List (List Cell)) (nOld n : Nat) : Ord3 :=
  match (if 0 < nOld && nOld < n then rowOrd cols (nOld - 1) nOld else Ord3.le) with
  | .gt => .gt
  | .cannot => .cannot
  | .le =>
    match cols.getLast? with
    | Option.none => .le
    | some last =>
      if cols.dropLast.all (fun c => constFrom c nOld n) then sortedFrom last nOld n
      else tailOrd cols (n - (nOld + 1)) (nOld + 1)

/-- `_in_index_order(n_old)` -/
def Table.inIndexOrder (t : Table) (nOld : Nat) : Ord3 :=
  inIndexOrderOf (t.indexes.map (fun c => match lookupCol t.data c with | .ok b => b | .error _ => []))
    nOld (match t.len with | .ok n => n | .error _ => 0)

/-! ### index -/

/-- `indexes[lo:hi] = sorted(indexes[lo:hi], key=col.__getitem__)` for every `(lo,hi)` -/
def sortSegments (k : Nat → Cell) : List (Nat × Nat) → List Nat → Except Err (List Nat)
  | [], perm => .ok perm
  | (lo, hi) :: rest, perm => do
    let seg ← pySortedBy k ((perm.drop lo).take (hi - lo))
    sortSegments k rest (perm.take lo ++ seg ++ perm.drop hi)

def setCol (data : List (Nat × List Cell)) (c : Nat) (v : List Cell) : List (Nat × List Cell) :=
  data.map (fun p => if p.1 == c then (p.1, v) else p)

/-- the loop `for col in indx:` of `Table.index`; `last` is `indx[-1]` -/
def indexLoop (cfg : Cfg) (last : Nat) :
    List Nat → List (Nat × List Cell) → List (Nat × Nat) → List Nat → Except Err (List (Nat × List Cell) × List Nat)
  | [], data, _, perm => .ok (data, perm)
  | col :: rest, data, lohis, perm =>
    match lookupCol data col with
    | .error e => .error e
    | .ok c =>
      -- indexes[lo:hi] = sorted(indexes[lo:hi], key=self._data[col].__getitem__) for every (lo,hi)
      match sortSegments (cellAt c) lohis perm with
      | .error e => .error e
      | .ok perm' =>
        -- self._data[col][:] = map(self._data[col].__getitem__, indexes)
        let c' := perm'.map (cellAt c)
        -- if col != indx[-1]: lohis = the runs of the column inside the old lohis
        match (if col ≠ last then subLohisAll cfg { base := c', sel := .all } lohis else .ok lohis) with
        | .error e => .error e
        | .ok lohis' => indexLoop cfg last rest (setCol data col c') lohis' perm'

/-- the index columns `Table.index(*indx)` works with: the names that are columns, repeated names
dropped only with the repair (P14) -/
def effIndex (cfg : Cfg) (t : Table) (indx : List Nat) : List Nat :=
  let indx1 := indx.filter (fun c => t.columns.contains c)
  if cfg.dedupIdx then dedupNat indx1 else indx1

/-- `for col in self._data.keys()-set(indx): self._data[col][:] = map(self._data[col].__getitem__,indexes)` -/
def permuteOthers (indx2 : List Nat) (perm : List Nat) (data : List (Nat × List Cell)) : List (Nat × List Cell) :=
  data.map (fun (p : Nat × List Cell) => if indx2.contains p.1 then p else (p.1, perm.map (cellAt p.2)))

/-- the `for col in indx` loop started on the whole table (nothing to do when no name is a column) -/
def indexRun (cfg : Cfg) (indx2 : List Nat) (data : List (Nat × List Cell)) (n : Nat) :
    Except Err (List (Nat × List Cell) × List Nat) :=
  match indx2.getLast? with
  | some last => indexLoop cfg last indx2 data [(0, n)] (List.range n)
  | Option.none => .ok (data, List.range n)

/-- `Table.index(*indx)` (only on tables that own their data) -/
def Table.index (cfg : Cfg) (t : Table) (indx : List Nat) : Except Err Table :=
  if indx.isEmpty then .ok t
  else if t.data.isEmpty then .ok t
  else if t.indexes = effIndex cfg t indx then .ok t
  else
    match t.len with
    | .error e => .error e
    | .ok n =>
      match indexRun cfg (effIndex cfg t indx) t.data n with
      | .error e => .error e
      | .ok (data, perm) =>
        .ok { t with data := permuteOthers (effIndex cfg t indx) perm data, indexes := effIndex cfg t indx }

/-- `Table.insert`: the rows are appended (`insertRaw`); with the repair an indexed table then asks
`_in_index_order(n_old)` about the new rows: still in index order → nothing to do; out of order →
sort again (`index`), and if that raises `TypeError` restore the lists and drop the index; not
comparable → drop the index -/
def Table.insert (cfg : Cfg) (t : Table) (d : InsertData) : Except Err Table :=
  match t.insertRaw cfg d with
  | .error e => .error e
  | .ok t' =>
    if cfg.resortInsert && !d.isEmpty && !t'.indexes.isEmpty then
      match t'.inIndexOrder (match t.len with | .ok n => n | .error _ => 0) with
      | .le => .ok t'
      | .cannot => .ok { t' with indexes := [] }
      | .gt =>
        match Table.index cfg { t' with indexes := [] } t'.indexes with
        | .ok t'' => .ok t''
        | .error .typeError => .ok { t' with indexes := [] }
        | .error e => .error e
    else .ok t'

/-! ### where -/

inductive Op
  | eq | ne | lt | le | gt | ge | isin | notin | mtch
  deriving DecidableEq, Repr

/-- callables given for a column: a small closed language of total predicates on a cell -/
inductive CellPred
  | eqv (v : Cell) | inl (vs : List Cell) | isMissing | isNone | const (b : Bool) | notp (p : CellPred)
  deriving Repr

def CellPred.eval : CellPred → Cell → Bool
  | .eqv v, c => pyEq c v
  | .inl vs, c => pyIn c vs
  | .isMissing, c => decide (c = .missing)
  | .isNone, c => decide (c = .none)
  | .const b, _ => b
  | .notp p, c => !(p.eval c)

/-- row predicates: a cell predicate on the k-th cell of the row, and combinations -/
inductive RowPred
  | cell (k : Nat) (p : CellPred) | or (a b : RowPred) | and (a b : RowPred)
  deriving Repr

def RowPred.eval : RowPred → List Cell → Bool
  | .cell k p, r => p.eval (r.getD k .missing)
  | .or a b, r => a.eval r || b.eval r
  | .and a b, r => a.eval r && b.eval r

/-- the value part of an argument -/
inductive ArgV
  | scalar (v : Cell) | coll (vs : List Cell)
  deriving Repr

/-- a keyword argument of `where` -/
inductive Arg
  | val (a : ArgV) | dict (op : Op) (a : ArgV) | fn (p : CellPred)
  deriving Repr

/-- `str(c)` for the else-branch of `match` -/
def natDigits : Nat → Nat → List Nat
  | 0, _ => [48]
  | fuel + 1, n => if n < 10 then [48 + n] else natDigits fuel (n / 10) ++ [48 + n % 10]

def natStr (n : Nat) : List Nat := natDigits n n

def intStr (i : Int) : List Nat := if i < 0 then 45 :: natStr i.natAbs else natStr i.natAbs

/-- decimal expansion of the fractional part `num/den` (< 1) for dyadic `den`; what `repr(float)`
prints for the floats the harness generates (few binary digits) -/
def fracDigits : Nat → Nat → Nat → List Nat
  | 0, _, _ => []
  | fuel + 1, num, den => if num = 0 then [] else (48 + (num * 10) / den) :: fracDigits fuel ((num * 10) % den) den

def fltStr (q : Rat) : List Nat :=
  let a := q.num.natAbs
  let ip := a / q.den
  let fr := fracDigits 40 (a % q.den) q.den
  (if q.num < 0 then [45] else []) ++ natStr ip ++ [46] ++ (if fr.isEmpty then [48] else fr)

def cellStr : Cell → List Nat
  | .none => [78, 111, 110, 101]
  | .missing => [78, 111, 110, 101]
  | .int i => intStr i
  | .flt q => fltStr q
  | .str s => s

def isPrefix : List Nat → List Nat → Bool
  | [], _ => true
  | _ :: _, [] => false
  | a :: as, b :: bs => a == b && isPrefix as bs

/-- `re.search(lit, s)` for a pattern without metacharacters -/
def litSearch (lit : List Nat) : List Nat → Bool
  | [] => lit.isEmpty
  | c :: cs => isPrefix lit (c :: cs) || litSearch lit cs

def isDigit (c : Nat) : Bool := 48 ≤ c && c ≤ 57

/-- the formatted number as a pattern: `f'{arg}'` is not escaped, so the `.` of a float (`1.0`) stands
for any character (no cell of the property holds a newline) -/
def patPrefix : List Nat → List Nat → Bool
  | [], _ => true
  | _ :: _, [] => false
  | a :: as, b :: bs => (a == 46 || a == b) && patPrefix as bs

/-- `re.search('(\D|^)' + lit + '(\D|$)', s)`; `prevOk` says the position is the start of the
string or follows a non-digit.  The pattern is made from the probe of *this* call. -/
def numSearch (lit : List Nat) : Bool → List Nat → Bool
  | prevOk, [] => prevOk && lit.isEmpty
  | prevOk, c :: cs =>
    (prevOk && patPrefix lit (c :: cs) &&
      (match (c :: cs).drop lit.length with | [] => true | d :: _ => !(isDigit d)))
    || numSearch lit (!(isDigit c)) cs

def isNumber : Cell → Bool
  | .int _ => true | .flt _ => true | _ => false

def isStr : Cell → Bool
  | .str _ => true | _ => false

/-- `[i for i,c in enumerate(col, lo) if test(c)]` for a test that may raise -/
def scanFilter (lo : Nat) (col : List Cell) (test : Cell → Except Err Bool) : Except Err (List Nat) :=
  match col with
  | [] => .ok []
  | c :: cs =>
    match test c with
    | .error e => .error e
    | .ok b =>
      match scanFilter (lo + 1) cs test with
      | .error e => .error e
      | .ok rest => .ok (if b then lo :: rest else rest)

/-! ## `match`, cell by cell -/

/-- what `match` means for one cell, whatever else is in the column: a number matches a number
when equal, a string when it contains the number between non-digits; a pattern (literal, no
metacharacters) matches when `str(cell)` contains it; `None` / `Missing` never match -/
def matchCell (arg c : Cell) : Bool :=
  match c with
  | .str s => if isNumber arg then numSearch (cellStr arg) true s else litSearch (cellStr arg) s
  | .int i => if isNumber arg then pyEq (.int i) arg else litSearch (cellStr arg) (intStr i)
  | .flt q => if isNumber arg then pyEq (.flt q) arg else litSearch (cellStr arg) (fltStr q)
  | _ => false

/-- all cells strings, or all cells numbers (no `None`, no `Missing`) -/
def homogB (col : List Cell) : Bool := col.all isStr || col.all isNumber

/-- the regular-expression branches of `_compare` (always on the scan path) -/
def matchScan (cfg : Cfg) (lo : Nat) (col : List Cell) (arg : Cell) : Except Err (List Nat) :=
  let nonNone (f : Cell → Except Err Bool) : Cell → Except Err Bool :=
    fun c => if c = .none then .ok false else f c
  let needStr (f : List Nat → Bool) : Cell → Except Err Bool :=
    fun c => match c with | .str s => .ok (f s) | _ => .error .typeError
  if cfg.matchPerCell then scanFilter lo col (fun c => .ok (matchCell arg c)) else
  match col with
  | [] => if cfg.matchEmpty then .ok []
          else if isNumber arg then .error .indexError
          else if isStr arg then .error .indexError
          else scanFilter lo col (fun _ => .ok false)
  | c0 :: _ =>
    if isNumber arg && isNumber c0 then scanFilter lo col (fun c => .ok (pyEq c arg))
    else if isNumber arg && isStr c0 then scanFilter lo col (nonNone (needStr (numSearch (cellStr arg) true)))
    else if isStr arg && isStr c0 then scanFilter lo col (nonNone (needStr (litSearch (cellStr arg))))
    else scanFilter lo col (nonNone (fun c => .ok (litSearch (cellStr arg) (cellStr c))))

def rangeOf (p : Nat × Nat) : List Nat := List.range' p.1 (p.2 - p.1)

/-- pairs `(v0,v1)` of `zip(arg[0:],arg[1:])` for `arg = [None]+sorted(arg)+[None]`;
`none` is the sentinel, and a probe that *is* `None` is taken for it (`v0 is None`) -/
def notinPairs (cfg : Cfg) (sorted : List Cell) : List (Option Cell × Option Cell) :=
  let a : List (Option Cell) := [Option.none] ++
    sorted.map (fun c => if c = .none && !cfg.notinSentinel then Option.none else some c) ++ [Option.none]
  a.zip (a.drop 1)

/-- `_compare(lo,hi,col,arg,comparison,"bisect")`: ranges of row numbers -/
def compareBisect (cfg : Cfg) (s : Seq) (lo hi : Nat) (op : Op) (a : ArgV) : Except Err (List (Nat × Nat)) :=
  let bl := myBisectLeft cfg s
  let br := myBisectRight cfg s
  match op, a with
  | .isin, .coll vs => do
    let vs0 ← pySorted vs
    let vs' := if cfg.dedupIn then dedupAdj vs0 else vs0
    vs'.mapM (fun v => do let l ← bl v lo hi; let h ← br v lo hi; pure (l, h))
  | .notin, .coll vs => do
    let vs' ← pySorted vs
    (notinPairs cfg vs').mapM (fun (p : Option Cell × Option Cell) => do
      let l ← match p.1 with | Option.none => pure lo | some v0 => br v0 lo hi
      let h ← match p.2 with | Option.none => pure hi | some v1 => bl v1 lo hi
      pure (l, h))
  | .eq, .scalar v => do let l ← bl v lo hi; let h ← br v lo hi; pure [(l, h)]
  | .ne, .scalar v => do let l ← bl v lo hi; let h ← br v lo hi; pure [(lo, l), (h, hi)]
  | .lt, .scalar v => do let l ← bl v lo hi; pure [(lo, l)]
  | .le, .scalar v => do let h ← br v lo hi; pure [(lo, h)]
  | .ge, .scalar v => do let l ← bl v lo hi; pure [(l, hi)]
  | .gt, .scalar v => do let h ← br v lo hi; pure [(h, hi)]
  | _, _ => .error .other

/-- `_compare(0,len,col,arg,comparison,"foreach")`: row numbers -/
def compareScan (cfg : Cfg) (col : List Cell) (op : Op) (a : ArgV) : Except Err (List Nat) :=
  let nn (f : Cell → Except Err Bool) : Cell → Except Err Bool := fun c => if c = .none then .ok false else f c
  match op, a with
  | .isin, .coll vs => scanFilter 0 col (fun c => .ok (pyIn c vs))
  | .notin, .coll vs => scanFilter 0 col (fun c => .ok (!(pyIn c vs)))
  | .eq, .scalar v => scanFilter 0 col (fun c => .ok (pyEq c v))
  | .ne, .scalar v => scanFilter 0 col (fun c => .ok (!(pyEq c v)))
  | .lt, .scalar v => scanFilter 0 col (nn (fun c => pyLt c v))
  | .le, .scalar v => scanFilter 0 col (nn (fun c => pyLe cfg c v))
  | .ge, .scalar v => scanFilter 0 col (nn (fun c => pyGe cfg c v))
  | .gt, .scalar v => scanFilter 0 col (nn (fun c => pyGt c v))
  | .mtch, .scalar v => matchScan cfg 0 col v
  | _, _ => .error .other

/-- the operator `_compare` ends up using: an explicit one, else `=` for a scalar and `in` for a collection -/
def effOp (comparison : Option Op) (a : ArgV) : Op :=
  match comparison, a with
  | some op, _ => op
  | Option.none, .scalar _ => .eq
  | Option.none, .coll _ => .isin

/-- the string `'!in'` -/
def notinStr : Cell := .str [33, 105, 110]

/-- what `where` + `_compare` make of one keyword: `(comparison after the isinstance(arg,dict) line,
operator and value `_compare` works with)`; a callable is handled by the caller -/
def resolveArg (cfg : Cfg) (comparison : Option Op) (arg : Arg) : Option Op × Option (Op × ArgV) :=
  match arg with
  | .fn _ => (comparison, Option.none)
  | .val a => (comparison, some (effOp comparison a, a))
  | .dict op a =>
    if op = .notin && !cfg.notinKey then
      -- not unpacked: the dict itself is the collection, its only key is '!in'
      (some .notin, some (.notin, .coll [notinStr]))
    else (some op, some (op, a))

/-- the bisect path of one keyword: for every segment of the column's lohis the ranges `_compare` returns -/
def kwBisect (cfg : Cfg) (s : Seq) (lohis : List (Nat × List (Nat × Nat))) (kw : Nat) (op : Op) (a : ArgV) :
    Except Err (List Nat) :=
  match dictGet lohis kw with
  | .error e => .error e
  | .ok segs =>
    match segs.mapM (fun (p : Nat × Nat) => compareBisect cfg s p.1 p.2 op a) with
    | .error e => .error e
    | .ok rs => .ok ((rs.flatMap id).flatMap rangeOf)

/-- the scan path of one keyword: `_compare(0,len(self),col,…,"foreach")` -/
def kwScan (cfg : Cfg) (s : Seq) (n : Nat) (op : Op) (a : ArgV) : Except Err (List Nat) :=
  match s.toList with
  | .error e => .error e
  | .ok col => compareScan cfg (col.take n) op a

/-- the rows one keyword contributes: the body of `for kw,arg in kwargs.items()` given the value
`comparison` has when the keyword is reached -/
def kwHere (cfg : Cfg) (t : Table) (lohis : List (Nat × List (Nat × Nat))) (n : Nat)
    (comparison : Option Op) (kw : Nat) (arg : Arg) : Except Err (List Nat) :=
  match t.col kw with
  | .error e => .error e
  | .ok s =>
    match arg, (resolveArg cfg comparison arg).2 with
    | .fn p, _ => (match s.toList with | .error e => .error e | .ok col => scanFilter 0 col (fun c => .ok (p.eval c)))
    | _, some (op, a) =>
      if t.indexes.contains kw && op ≠ .mtch then
        match kwBisect cfg s lohis kw op a with
        | .error .typeError =>
          -- `except TypeError`: answer as without an index (only with the repair)
          if cfg.bisectFallback then kwScan cfg s n op a else .error .typeError
        | r => r
      else kwScan cfg s n op a
    | _, Option.none => .error .other

/-- the selection built by the `for kw,arg in kwargs.items()` loop; `comparison` is threaded
through the keywords as the code does (overwritten by a dict argument unless repaired) -/
def whereLoop (cfg : Cfg) (t : Table) (lohis : List (Nat × List (Nat × Nat))) (n : Nat) :
    Option Op → List (Nat × Arg) → Except Err (List Nat)
  | _, [] => .ok []
  | comparison, (kw, arg) :: rest =>
    match kwHere cfg t lohis n comparison kw arg with
    | .error e => .error e
    | .ok here =>
      match whereLoop cfg t lohis n (if cfg.localOp then comparison else (resolveArg cfg comparison arg).1) rest with
      | .error e => .error e
      | .ok more => .ok (here ++ more)

/-- `Table.where(row_pred, comparison, **kwargs)`; `none` for "returns self" is not modelled
(the harness always passes a predicate or a keyword) -/
def Table.pwhere (cfg : Cfg) (t : Table) (pred : Option RowPred) (comparison : Option Op)
    (kws : List (Nat × Arg)) : Except Err Table :=
  match pred with
  | some p => do
    let rows ← t.rows
    let selection := ((List.range rows.length).zip rows).filterMap (fun (q : Nat × List Cell) => if p.eval q.2 then some q.1 else Option.none)
    let sel ← composeSel t.sel selection
    pure { t with sel := sel }
  | Option.none => do
    let lohis ← t.calcLohis cfg
    let n ← t.len
    let selection ← whereLoop cfg t lohis n comparison kws
    let selection := if kws.length > 1 then sortDedupNat selection else selection
    let sel ← composeSel t.sel selection
    pure { t with sel := sel }

/-! ### groupby, copy -/

inductive Select
  | keys | count | one (c : Nat) | many (cs : List Nat)
  deriving Repr

inductive GroupOut
  | key (k : List Cell)
  | cnt (k : List Cell) (n : Nat)
  | one (k : List Cell) (v : List Cell)
  | many (k : List Cell) (vs : List (List Cell))
  deriving Repr, DecidableEq

/-- `col[l:h]` -/
def Seq.slice (s : Seq) (l h : Nat) : Except Err (List Cell) := do
  let xs ← s.toList
  pure ((xs.drop l).take (h - l))

/-- one `yield` of `groupby`: the index (cells of the group columns in the first row of the
segment) and what `select` asks for -/
def groupOne (select : Select) (grpCols selCols : List Seq) (p : Nat × Nat) : Except Err GroupOut :=
  match grpCols.mapM (fun s => s.get p.1) with
  | .error e => .error e
  | .ok k =>
    match select with
    | .keys => .ok (GroupOut.key k)
    | .count => .ok (GroupOut.cnt k (p.2 - p.1))
    | .one _ =>
      match selCols with
      | [s] => (match s.slice p.1 p.2 with | .ok v => .ok (GroupOut.one k v) | .error e => .error e)
      | _ => .error .other
    | .many _ =>
      match selCols.mapM (fun s => s.slice p.1 p.2) with
      | .ok vs => .ok (GroupOut.many k vs)
      | .error e => .error e

/-- the columns `select` names -/
def selectCols (t : Table) (select : Select) : Except Err (List Seq) :=
  match select with
  | .one c => (match t.col c with | .ok s => .ok [s] | .error e => .error e)
  | .many cs => cs.mapM t.col
  | _ => .ok []

def Table.groupby (cfg : Cfg) (t : Table) (level : Nat) (select : Select) : Except Err (List GroupOut) :=
  match t.calcLohis cfg with
  | .error e => .error e
  | .ok lohis =>
    match (t.indexes.take level).mapM t.col with
    | .error e => .error e
    | .ok grpCols =>
      match optGet t.indexes[level]? with
      | .error e => .error e
      | .ok ixcol =>
        match dictGet lohis ixcol with
        | .error e => .error e
        | .ok segs =>
          match selectCols t select with
          | .error e => .error e
          | .ok selCols => segs.mapM (groupOne select grpCols selCols)

def Table.copy (t : Table) : Table := t

/-! ## Operation sequences (what the driver runs) -/

inductive Init
  /-- `Table(columns=cs)` -/
  | columns (cs : List Nat)
  /-- `Table(data)` with a mapping of columns -/
  | coldict (d : List (Nat × List Cell))
  /-- `Table(data, columns=cs)` with a mapping whose keys are exactly `cs` -/
  | coldictCols (d : List (Nat × List Cell)) (cs : List Nat)
  deriving Repr

def Init.table : Init → Table
  | .columns cs => { columns := cs, data := cs.map (fun c => (c, [])), sel := .all, indexes := [] }
  | .coldict d => { columns := d.map (·.1), data := d, sel := .all, indexes := [] }
  | .coldictCols d cs => { columns := cs, data := d, sel := .all, indexes := [] }

inductive TOp
  | insert (t : Nat) (d : InsertData)
  | index (t : Nat) (cols : List Nat)
  | whr (t : Nat) (pred : Option RowPred) (comparison : Option Op) (kws : List (Nat × Arg))
  | groupby (t : Nat) (level : Nat) (select : Select)
  | copy (t : Nat)
  /-- `list(table)` of an existing table object (used right after another object sharing its
  storage was mutated) -/
  | peek (t : Nat)
  /-- an operation the harness does not perform (aliased or view target); creates a dead table
  if the operation would have created one -/
  | skip (creates : Bool)
  deriving Repr

inductive Obs
  | table (rows : List (List Cell)) (columns indexes : List Nat)
  | groups (gs : List GroupOut)
  | err (e : Err)
  | skipped
  deriving Repr, DecidableEq

def observe (t : Table) : Obs :=
  match t.rows with
  | .ok rs => .table rs t.columns t.indexes
  | .error e => .err e

def setAt {α} (l : List α) (i : Nat) (a : α) : List α := l.set i a

/-- every table object of a run was made from the first one by `where` (a `View` of the same dict
of column lists) or `copy` (the very same dict): a mutation through one object is a mutation of the
lists all of them show.  `share d ts` gives every object the mutated dict `d`; each keeps its own
`_columns`, `_indexes` and selection. -/
def share (d : List (Nat × List Cell)) (ts : List (Option Table)) : List (Option Table) :=
  ts.map (fun o => o.map (fun u => { u with data := d }))

/-- one step: the tables alive so far (`none`: dead after a failed mutation / not created) -/
def step (cfg : Cfg) (ts : List (Option Table)) (op : TOp) : List (Option Table) × Obs :=
  let target (i : Nat) : Option Table := (ts[i]?).bind id
  match op with
  | .skip creates => (if creates then ts ++ [Option.none] else ts, .skipped)
  | .peek i =>
    match target i with
    | Option.none => (ts, .skipped)
    | some t => (ts, observe t)
  | .insert i d =>
    match target i with
    | Option.none => (ts, .skipped)
    | some t => match t.insert cfg d with
      | .ok t' => (setAt (share t'.data ts) i (some t'), observe t')
      | .error e => (setAt ts i Option.none, .err e)
  | .index i cols =>
    match target i with
    | Option.none => (ts, .skipped)
    | some t => match t.index cfg cols with
      | .ok t' => (setAt (share t'.data ts) i (some t'), observe t')
      | .error e => (setAt ts i Option.none, .err e)
  | .whr i pred cmp kws =>
    match target i with
    | Option.none => (ts ++ [Option.none], .skipped)
    | some t => match t.pwhere cfg pred cmp kws with
      | .ok t' => (ts ++ [some t'], observe t')
      | .error e => (ts ++ [Option.none], .err e)
  | .groupby i level select =>
    match target i with
    | Option.none => (ts, .skipped)
    | some t => match t.groupby cfg level select with
      | .ok gs => (ts, .groups gs)
      | .error e => (ts, .err e)
  | .copy i =>
    match target i with
    | Option.none => (ts ++ [Option.none], .skipped)
    | some t => (ts ++ [some t.copy], observe t.copy)

def runOps (cfg : Cfg) : List (Option Table) → List TOp → List Obs
  | _, [] => []
  | ts, op :: rest => let r := step cfg ts op; r.2 :: runOps cfg r.1 rest

def run (cfg : Cfg) (init : Init) (ops : List TOp) : List Obs :=
  observe init.table :: runOps cfg [some init.table] ops

/-! ## Specification: a table is a list of rows -/

/-- the plain meaning of one condition on one cell. `none` = Python raises on this cell.
`Missing` is greater than everything (`MissingType.__gt__ = True`, `__lt__ = False`), `None`
cells never satisfy an order comparison (the documented `c is not None and …`). -/
def satOrd (op : Op) (c v : Cell) : Except Err Bool :=
  if c = .none then .ok false
  else match op with
    | .lt => pyLt c v
    | .le => pyLe Cfg.fixed c v
    | .gt => pyGt c v
    | .ge => pyGe Cfg.fixed c v
    | _ => .error .other

def sat (op : Op) (a : ArgV) (c : Cell) : Except Err Bool :=
  match op, a with
  | .eq, .scalar v => .ok (pyEq c v)
  | .ne, .scalar v => .ok (!(pyEq c v))
  | .isin, .coll vs => .ok (pyIn c vs)
  | .notin, .coll vs => .ok (!(pyIn c vs))
  | .lt, .scalar v => satOrd .lt c v
  | .le, .scalar v => satOrd .le c v
  | .gt, .scalar v => satOrd .gt c v
  | .ge, .scalar v => satOrd .ge c v
  | _, _ => .error .other

/-- what is asked of a cell: a comparison with a value, or a callable -/
inductive Test
  | cmp (op : Op) (a : ArgV) | fn (p : CellPred)
  deriving Repr

def Test.eval : Test → Cell → Except Err Bool
  | .cmp op a, c => sat op a c
  | .fn p, c => .ok (p.eval c)

/-- one keyword condition -/
structure Cond where
  col : Nat
  test : Test
  deriving Repr

/-- the condition a keyword stands for, as documented: its own operator if given as `{op: v}`,
else the positional one, else `=` for a value and `in` for a collection -/
def condOf (comparison : Option Op) (kw : Nat × Arg) : Cond :=
  match kw.2 with
  | .fn p => { col := kw.1, test := .fn p }
  | .dict op a => { col := kw.1, test := .cmp op a }
  | .val a => { col := kw.1, test := .cmp (effOp comparison a) a }

/-- a table as the specification sees it: column names and rows -/
structure RowTable where
  columns : List Nat
  rows : List (List Cell)
  deriving Repr

def cellOf (columns : List Nat) (row : List Cell) (c : Nat) : Except Err Cell :=
  match (columns.zip row).find? (fun p => p.1 == c) with
  | some p => .ok p.2
  | Option.none => .error .keyError

/-- does the row satisfy at least one of the conditions (every condition is evaluated) -/
def satRow (columns : List Nat) (row : List Cell) : List Cond → Except Err Bool
  | [] => .ok false
  | k :: ks =>
    match cellOf columns row k.col with
    | .error e => .error e
    | .ok c =>
      match k.test.eval c with
      | .error e => .error e
      | .ok b =>
        match satRow columns row ks with
        | .error e => .error e
        | .ok b' => .ok (b || b')

/-- the rows, in order and with multiplicity, that pass the (possibly raising) test -/
def filterRows (test : List Cell → Except Err Bool) : List (List Cell) → Except Err (List (List Cell))
  | [] => .ok []
  | r :: rs =>
    match test r with
    | .error e => .error e
    | .ok b =>
      match filterRows test rs with
      | .error e => .error e
      | .ok rest => .ok (if b then r :: rest else rest)

/-- `whereS`: the rows, in table order and with multiplicity, that satisfy one of the conditions
under a plain row-by-row evaluation -/
def whereS (t : RowTable) (conds : List Cond) : Except Err (List (List Cell)) :=
  filterRows (fun r => satRow t.columns r conds) t.rows


/-! ## Well-formedness of a `where` call (the hypotheses of `where_eq_spec_partial`, as a decidable check)

Each conjunct is forced: without it the code of the pinned tree (or any tree) answers differently
from the plain evaluation; see the `_counterexample` theorems in `Props/C17.lean`. -/


/-- operator and argument fit: a value for the six comparisons, a collection for `in` / `!in` -/
def argShape : Op → ArgV → Bool
  | .isin, .coll _ => true
  | .notin, .coll _ => true
  | .isin, .scalar _ => false
  | .notin, .scalar _ => false
  | .mtch, _ => false
  | _, .scalar _ => true
  | _, .coll _ => false

def probesOf : ArgV → List Cell
  | .scalar v => [v]
  | .coll vs => vs


/-- the row numbers of the underlying lists a selection shows, in order -/
def Sel.idx (sel : Sel) (N : Nat) : List Nat :=
  match sel with
  | .all => List.range N
  | .slice a b => List.range' a (b - a)
  | .list ix => ix


def viewOf (base : List Cell) (sel : Sel) : List Cell := (sel.idx base.length).map (cellAt base)


/-- the stored list of column `c` (empty if there is none) -/
def Table.base (t : Table) (c : Nat) : List Cell :=
  match lookupCol t.data c with
  | .ok b => b
  | .error _ => []

/-- column `c` as the table shows it -/
def Table.vcol (t : Table) (c : Nat) : List Cell := viewOf (t.base c) t.sel


/-- number of rows the table shows -/
def Table.m (t : Table) (N : Nat) : Nat := (t.sel.idx N).length



/-- cells of `xs[lo:hi]` are in non-decreasing key order -/
def sortedSegB (xs : List Cell) (lo hi : Nat) : Bool :=
  allIn lo hi (fun i => allIn lo hi (fun j => !(decide (i < j)) || !((cellAt xs j).key.lt (cellAt xs i).key)))

/-- the bisections work on `xs[lo:hi]` for the probes `vs`: segment inside the column, not empty
(unless guarded, P12), sorted (P13/P14), no `None`, cells and probes mutually comparable -/
def probeOKB (cfg : Cfg) (xs : List Cell) (lo hi : Nat) (vs : List Cell) : Bool :=
  decide (lo ≤ hi) && decide (hi ≤ xs.length) && (cfg.guardEmpty || decide (lo < hi)) && sortedSegB xs lo hi
  && allIn lo hi (fun i => (cellAt xs i).key != Key.none)
  && vs.all (fun v => allIn lo hi (fun i => (cellAt xs i).key.comparable v.key))
  && vs.all (fun v => v.key != Key.none)

/-- consecutive segments covering `[a,b)` -/
def segsB : List (Nat × Nat) → Nat → Nat → Bool
  | [], a, b => a == b
  | (l, h) :: r, a, b => l == a && decide (a ≤ h) && segsB r h b

def isOrderOp : Op → Bool
  | .lt | .le | .gt | .ge => true
  | _ => false

/-- the plain test on this cell is an order question: cell not `None`, comparable with the probes,
no `Missing` probe under an order comparison -/
def cellOKB (op : Op) (a : ArgV) (c : Cell) : Bool :=
  c.key != Key.none && (probesOf a).all (fun v => c.key.comparable v.key)
  && (!(isOrderOp op) || (probesOf a).all (fun v => v.key != Key.missing))

def distinctKeysB : List Cell → Bool
  | [] => true
  | v :: vs => vs.all (fun w => v.key != w.key) && distinctKeysB vs

/-- `<=` / `>=` on the scan path do not meet `Missing` unless repaired (P11) -/
def leGeOKB (cfg : Cfg) (op : Op) (a : ArgV) (col : List Cell) : Bool :=
  let noMissing := col.all (fun c => c.key != Key.missing) && (probesOf a).all (fun v => v.key != Key.missing)
  (op != Op.le || cfg.missingLe || noMissing) && (op != Op.ge || cfg.missingGe || noMissing)

def isOk {α} : Except Err α → Bool
  | .ok _ => true
  | .error _ => false

/-- hypotheses for one keyword (see `KwOK` in `Lemmas/C17.lean` for the same as a proposition) -/
def kwOKB (cfg : Cfg) (t : Table) (lohis : List (Nat × List (Nat × Nat))) (m : Nat) (pos : Option Op)
    (kw : Nat × Arg) : Bool :=
  t.columns.contains kw.1 &&
  (match kw.2 with | .dict .notin _ => cfg.notinKey | _ => true) &&
  (match (condOf pos kw).test with
   | .fn _ => true
   | .cmp op a =>
     argShape op a &&
     (if t.indexes.contains kw.1 then
        match dictGet lohis kw.1 with
        | .error _ => false
        | .ok segs =>
          segsB segs 0 m && segs.all (fun p => probeOKB cfg (t.vcol kw.1) p.1 p.2 (probesOf a))
          && allComparable (probesOf a)
          && (op != Op.isin || cfg.dedupIn || distinctKeysB (probesOf a))
          && allIn 0 m (fun i => cellOKB op a (cellAt (t.vcol kw.1) i))
      else leGeOKB cfg op a (t.vcol kw.1)))

def isVal : Arg → Bool
  | .val _ => true
  | _ => false

def isDict : Arg → Bool
  | .dict _ _ => true
  | _ => false

/-- P10: no plain argument after a `{op: value}` argument unless the operator is local -/
def noLeakB (cfg : Cfg) : List (Nat × Arg) → Bool
  | [] => true
  | kw :: rest => (cfg.localOp || !(isDict kw.2) || rest.all (fun k => !(isVal k.2))) && noLeakB cfg rest

def strictIncB : List Nat → Bool
  | [] => true
  | x :: xs => xs.all (fun y => decide (x < y)) && strictIncB xs

/-- stored lists of equal length `N`, every column of `_columns` stored, selection increasing and inside -/
def tableOKB (t : Table) (N : Nat) : Bool :=
  t.data.all (fun p => p.2.length == N) && t.columns.all (fun c => isOk (lookupCol t.data c))
  && strictIncB (t.sel.idx N) && (t.sel.idx N).all (fun j => decide (j < N))

/-- all hypotheses of `where_eq_spec_partial` for the call `t.where(None, pos, **kws)` -/
def whereWF (cfg : Cfg) (t : Table) (pos : Option Op) (kws : List (Nat × Arg)) : Bool :=
  match t.data with
  | [] => false
  | (_, b) :: _ =>
    tableOKB t b.length && !kws.isEmpty && noLeakB cfg kws &&
    (match t.calcLohis cfg with
     | .error _ => false
     | .ok lohis => kws.all (kwOKB cfg t lohis (t.m b.length) pos))

/-- hypotheses of `index_spec_partial` as a decidable check: the table owns its lists (not a view) and is
well-formed, at least one name given, the effective index columns are distinct (P14), differ from
the current `_indexes` (otherwise `index` returns at once: P13), are columns, and their cells are
mutually comparable and not `None` (otherwise `sorted` raises) -/
def indexWF (cfg : Cfg) (t : Table) (indx : List Nat) : Bool :=
  match t.data with
  | [] => false
  | (_, b) :: _ =>
    decide (t.sel = Sel.all) && tableOKB t b.length && !indx.isEmpty && !t.columns.isEmpty
    && decide (effIndex cfg t indx).Nodup && decide (t.indexes ≠ effIndex cfg t indx)
    && (effIndex cfg t indx).all (fun d => t.columns.contains d && isOk (lookupCol t.data d) &&
         allIn 0 b.length (fun x => (cellAt (t.base d) x).key != Key.none &&
           allIn 0 b.length (fun y => (cellAt (t.base d) x).key.comparable (cellAt (t.base d) y).key)))

/-- positions (in the row) of the index columns -/
def idxPositions (columns : List Nat) (idx : List Nat) : List Nat := idx.map (fun d => columns.idxOf d)

/-- `insertS` for a mapping `column → k values`: columns the table does not have yet are appended
in sorted order; old rows get `Missing` there; the `k` new rows take their cells from the mapping and
`Missing` for columns it does not mention -/
def insertColsS (columns : List Nat) (R : List (List Cell)) (cs : List (Nat × List Cell)) (k : Nat) :
    List Nat × List (List Cell) :=
  let newCols := newColsOf columns (cs.map (·.1))
  (columns ++ newCols, R.map (fun r => r ++ newCols.map (fun _ => Cell.missing)) ++
    (List.range k).map (fun i => (columns ++ newCols).map (fun c => cellAt (mapValD cs c) i)))

/-- `insertS` for a sequence of dict rows: each dict is one new row -/
def insertDictsS (columns : List Nat) (R : List (List Cell)) (ds : List (List (Nat × Cell))) :
    List Nat × List (List Cell) :=
  let newCols := newColsOf columns (ds.flatMap (fun d => d.map (·.1)))
  (columns ++ newCols, R.map (fun r => r ++ newCols.map (fun _ => Cell.missing)) ++
    ds.map (fun d => (columns ++ newCols).map (assocGet d)))

/-- lexicographic `<` of two rows on the columns `ks` (positions in the row) -/
def lexLt (ks : List Nat) (r s : List Cell) : Bool :=
  match ks with
  | [] => false
  | k :: rest =>
    let a := (r.getD k .missing).key
    let b := (s.getD k .missing).key
    if a.lt b then true else if b.lt a then false else lexLt rest r s

/-- `indexS`: stable lexicographic sort of the rows -/
def indexS (ks : List Nat) (rows : List (List Cell)) : List (List Cell) := sortBy (lexLt ks) rows

/-- maximal runs of rows that agree (under the order) on the columns `ks` -/
def runsBy {α} (same : α → α → Bool) : List α → List (List α)
  | [] => []
  | x :: xs =>
    match runsBy same xs with
    | (y :: ys) :: rest => if same x y then (x :: y :: ys) :: rest else [x] :: (y :: ys) :: rest
    | _ => [[x]]

def samePrefix (ks : List Nat) (r s : List Cell) : Bool := !(lexLt ks r s) && !(lexLt ks s r)

def groupbyS (ks : List Nat) (rows : List (List Cell)) : List (List (List Cell)) := runsBy (samePrefix ks) rows

/-- `K d x`: key of original row `x` in column `d`; lexicographic `<` over the columns `ds` -/
def lexLtK (K : Nat → Nat → Key) : List Nat → Nat → Nat → Bool
  | [], _, _ => false
  | d :: ds, x, y => if (K d x).lt (K d y) then true else if (K d y).lt (K d x) then false else lexLtK K ds x y

/-- key of the `x`-th row the table shows, in column `d` -/
def Kt (t : Table) (d x : Nat) : Key := (cellAt (t.vcol d) x).key

/-- the cells of every index column are mutually comparable and not `None` -/
def idxCellsOKB (t : Table) (N : Nat) : Bool :=
  t.indexes.all (fun d => allIn 0 (t.m N) (fun x => Kt t d x != Key.none &&
    allIn 0 (t.m N) (fun y => (Kt t d x).comparable (Kt t d y))))

/-- `Indexed` as a check -/
def indexedB (t : Table) (N : Nat) : Bool :=
  decide t.indexes.Nodup && t.indexes.all (fun d => isOk (lookupCol t.data d)) &&
  allIn 0 (t.m N) (fun j => allIn 0 (t.m N) (fun i => !(decide (i < j)) || !(lexLtK (Kt t) t.indexes j i))) &&
  t.indexes.all (fun d => allIn 0 (t.m N) (fun x => Kt t d x != Key.none &&
    allIn 0 (t.m N) (fun y => (Kt t d x).comparable (Kt t d y))))


/-! ## Linear histories: the refinement `ops_refine` is about these

One table object and what is made from it: `insert` / `index` mutate it, `where` continues with the
result (where-of-where), `copy` with the copy.  (Several live objects sharing storage are `run`/`step`
above; they are outside the refinement theorem, see `copy_shares_storage_counterexample`.) -/

inductive LOp
  | insert (d : InsertData)
  | index (cols : List Nat)
  | whereK (pos : Option Op) (kws : List (Nat × Arg))
  | whereP (p : RowPred)
  | copy
  deriving Repr

def stepL (cfg : Cfg) (t : Table) : LOp → Except Err Table
  | .insert d => t.insert cfg d
  | .index cols => t.index cfg cols
  | .whereK pos kws => t.pwhere cfg Option.none pos kws
  | .whereP p => t.pwhere cfg (some p) Option.none []
  | .copy => .ok t.copy

def runL (cfg : Cfg) : Table → List LOp → Except Err Table
  | t, [] => .ok t
  | t, op :: rest =>
    match stepL cfg t op with
    | .error e => .error e
    | .ok t' => runL cfg t' rest

/-- the abstract table of the specification: column names, rows, index columns -/
structure AbsT where
  columns : List Nat
  rows : List (List Cell)
  indexes : List Nat
  deriving Repr

/-- `insertS` -/
def insertS (columns : List Nat) (R : List (List Cell)) : InsertData → List Nat × List (List Cell)
  | .rows rs => (columns, R ++ rs)
  | .dicts ds => if ds.isEmpty then (columns, R) else insertDictsS columns R ds
  | .cols cs => match cs with
    | [] => (columns, R)
    | q :: _ => insertColsS columns R cs q.2.length

/-- `insert` as the repaired code means it: the normalised rows are appended; a table that is
indexed stays in index order (the stable sort leaves rows alone that are in order already) -/
def insertSpec (cfg : Cfg) (columns indexes : List Nat) (R : List (List Cell)) (d : InsertData) : List Nat × List (List Cell) :=
  let r := insertS columns R d
  if cfg.resortInsert && !d.isEmpty && !indexes.isEmpty then (r.1, indexS (idxPositions r.1 indexes) r.2) else r

/-- the specification machine: insert appends the normalised rows (and keeps an indexed table in
index order when the code does), index is the stable lexicographic sort by the named columns that
exist (once each), where is the plain filter, copy changes nothing -/
def stepLS (cfg : Cfg) (a : AbsT) : LOp → Except Err AbsT
  | .insert d => .ok { a with columns := (insertSpec cfg a.columns a.indexes a.rows d).1, rows := (insertSpec cfg a.columns a.indexes a.rows d).2 }
  | .index cols =>
    let ix := dedupNat (cols.filter (fun c => a.columns.contains c))
    .ok { a with rows := indexS (idxPositions a.columns ix) a.rows, indexes := ix }
  | .whereK pos kws =>
    match whereS { columns := a.columns, rows := a.rows } (kws.map (condOf pos)) with
    | .ok rs => .ok { a with rows := rs }
    | .error e => .error e
  | .whereP p => .ok { a with rows := a.rows.filter p.eval }
  | .copy => .ok a

def runLS (cfg : Cfg) : AbsT → List LOp → Except Err AbsT
  | a, [] => .ok a
  | a, op :: rest =>
    match stepLS cfg a op with
    | .error e => .error e
    | .ok a' => runLS cfg a' rest

/-- length of the stored lists -/
def tableN (t : Table) : Nat :=
  match t.data with
  | [] => 0
  | (_, b) :: _ => b.length

/-- a table `insert` can work on: it owns its lists (not a view), is well-formed, every stored list is a column -/
def insertOKB (t : Table) : Bool :=
  decide (t.sel = Sel.all) && tableOKB t (tableN t) && t.data.all (fun p => t.columns.contains p.1)

/-- number of rows an insert brings -/
def InsertData.size : InsertData → Nat
  | .rows rs => rs.length
  | .dicts ds => ds.length
  | .cols cs => match cs with | [] => 0 | q :: _ => q.2.length

/-- hypotheses of `insertRaw_eq_spec`: rows as long as the (distinct) columns; value lists of a mapping
equally long; for dict rows without any key the P-empty-dicts repair; at least one column afterwards -/
def insertRawWF (cfg : Cfg) (t : Table) (d : InsertData) : Bool :=
  insertOKB t &&
  (match d with
   | .rows rs => !rs.isEmpty && !t.columns.isEmpty && decide t.columns.Nodup && rs.all (fun r => r.length == t.columns.length)
   | .cols cs => (match cs with
       | [] => false
       | q :: _ => cs.all (fun q' => q'.2.length == q.2.length)) && !(t.columns ++ newColsOf t.columns (cs.map (·.1))).isEmpty
   | .dicts ds => !ds.isEmpty && (cfg.dictLen || !(dictsToCols ds).isEmpty)
       && !(t.columns ++ newColsOf t.columns (ds.flatMap (fun d => d.map (·.1)))).isEmpty)

/-- hypotheses of `insert_eq_spec`: those of the append, and - when the code keeps an indexed table
in index order (P13 repair) - the table is in index order before (always true for a reachable table,
see `inv_reachable`), its index columns are columns, and the cells of the index columns including the
new ones can be ordered and are not `None` (otherwise the code drops the index) -/
def insertWF (cfg : Cfg) (t : Table) (d : InsertData) : Bool :=
  insertRawWF cfg t d &&
  (!(cfg.resortInsert && !t.indexes.isEmpty) ||
    (t.indexes.all (fun c => t.columns.contains c) && indexedB t (tableN t) &&
     (match t.insertRaw cfg d with
      | .ok t' => idxCellsOKB t' (tableN t')
      | .error _ => false)))

/-- the side conditions of one operation of a linear history, on the table it is applied to -/
def opWF (cfg : Cfg) (t : Table) : LOp → Bool
  | .insert d => insertWF cfg t d
  | .index cols => indexWF cfg t cols
  | .whereK pos kws => whereWF cfg t pos kws &&
      (match t.rows with
       | .ok R => isOk (whereS { columns := t.columns, rows := R } (kws.map (condOf pos)))
       | .error _ => false)
  | .whereP _ => (match t.data with | [] => false | (_, b) :: _ => tableOKB t b.length) && !t.columns.isEmpty
  | .copy => true

/-- `WFops`: every operation of the history meets its side conditions when its turn comes -/
def WFL (cfg : Cfg) : Table → List LOp → Bool
  | _, [] => true
  | t, op :: rest =>
    opWF cfg t op &&
    (match stepL cfg t op with
     | .ok t' => WFL cfg t' rest
     | .error _ => false)

/-! ## Side conditions that do not look at the state of the index

`opWF` above asks, for a `where` on an indexed column, that the segments `_calc_lohis` finds are
sorted runs - which is false on a table whose rows went out of index order - and `index` must ask for
other columns than the current ones.  With the repaired `insert` every table a linear history can
reach is in index order (`inv_reachable`), so these side conditions only speak about the data: cells
and probes that can be ordered, no `None`, shapes of the arguments. -/

/-- `KwOKIdx` as a check -/
def kwOKIdxB (cfg : Cfg) (t : Table) (m : Nat) (pos : Option Op) (kw : Nat × Arg) : Bool :=
  t.columns.contains kw.1 &&
  (match kw.2 with | .dict .notin _ => cfg.notinKey | _ => true) &&
  (match (condOf pos kw).test with
   | .fn _ => true
   | .cmp op a =>
     argShape op a &&
     (if t.indexes.contains kw.1 then
        (cfg.guardEmpty || decide (0 < m))
        && (probesOf a).all (fun v => v.key != Key.none)
        && (probesOf a).all (fun v => allIn 0 m (fun i => (cellAt (t.vcol kw.1) i).key.comparable v.key))
        && allComparable (probesOf a)
        && (op != Op.isin || cfg.dedupIn || distinctKeysB (probesOf a))
        && (!(op == Op.lt || op == Op.le || op == Op.gt || op == Op.ge) || (probesOf a).all (fun v => v.key != Key.missing))
      else leGeOKB cfg op a (t.vcol kw.1)))

/-- `whereWF` without the conditions on the lohis -/
def whereOK (cfg : Cfg) (t : Table) (pos : Option Op) (kws : List (Nat × Arg)) : Bool :=
  match t.data with
  | [] => false
  | (_, b) :: _ =>
    tableOKB t b.length && !kws.isEmpty && noLeakB cfg kws && kws.all (kwOKIdxB cfg t (t.m b.length) pos)

/-- `indexWF` without "other columns than the current index" -/
def indexOK (cfg : Cfg) (t : Table) (indx : List Nat) : Bool :=
  match t.data with
  | [] => false
  | (_, b) :: _ =>
    decide (t.sel = Sel.all) && tableOKB t b.length && !indx.isEmpty && !t.columns.isEmpty
    && decide (effIndex cfg t indx).Nodup
    && (effIndex cfg t indx).all (fun d => t.columns.contains d && isOk (lookupCol t.data d) &&
         allIn 0 b.length (fun x => (cellAt (t.base d) x).key != Key.none &&
           allIn 0 b.length (fun y => (cellAt (t.base d) x).key.comparable (cellAt (t.base d) y).key)))

/-- `insertWF` without "the table is in index order" -/
def insertOK (cfg : Cfg) (t : Table) (d : InsertData) : Bool :=
  insertRawWF cfg t d &&
  (t.indexes.isEmpty ||
    (match t.insertRaw cfg d with
     | .ok t' => idxCellsOKB t' (tableN t')
     | .error _ => false))

def opOK (cfg : Cfg) (t : Table) : LOp → Bool
  | .insert d => insertOK cfg t d
  | .index cols => indexOK cfg t cols
  | .whereK pos kws => whereOK cfg t pos kws &&
      (match t.rows with
       | .ok R => isOk (whereS { columns := t.columns, rows := R } (kws.map (condOf pos)))
       | .error _ => false)
  | .whereP _ => (match t.data with | [] => false | (_, b) :: _ => tableOKB t b.length) && !t.columns.isEmpty
  | .copy => true

/-- every operation of the history meets its data-only side conditions when its turn comes -/
def OKL (cfg : Cfg) : Table → List LOp → Bool
  | _, [] => true
  | t, op :: rest =>
    opOK cfg t op &&
    (match stepL cfg t op with
     | .ok t' => OKL cfg t' rest
     | .error _ => false)

/-- the invariant as a check: well-formed, the index columns are columns, the rows are in index order -/
def invB (t : Table) : Bool :=
  tableOKB t (tableN t) && t.indexes.all (fun c => t.columns.contains c) && indexedB t (tableN t)


/-- abstraction: what the table shows -/
def Table.abs (t : Table) : AbsT :=
  { columns := t.columns, rows := (match t.rows with | .ok R => R | .error _ => []), indexes := t.indexes }

/-- equal up to Python's `==`, cell by cell (`1` vs `1.0`: `index` may exchange them between rows
that agree on an earlier index column) -/
def AbsT.eqv (a b : AbsT) : Prop :=
  a.columns = b.columns ∧ a.indexes = b.indexes ∧ a.rows.map (List.map Cell.key) = b.rows.map (List.map Cell.key)


/-! ## Phase 4: several live objects, each with its own memoised `_lohis`

`Table._lohis` is per object: `None` on a new object (`where` result), the dict of `_calc_lohis` after
`index` or after the first `where`/`groupby` (`self._lohis = self._lohis or self._calc_lohis()`), `{}`
after an `insert` that found it truthy; `copy` hands the very value to the new object.  No `_lohis`
dict is ever mutated in place, so a value per object is exact.  `fresh` is a ghost flag: no OTHER
object has mutated the shared column lists since this object was made (cleared by `stepC`). -/

abbrev Lohis := List (Nat × List (Nat × Nat))

structure CObj where
  t : Table
  /-- `_lohis`: `none` = `None`, `some []` = `{}` -/
  cache : Option Lohis
  fresh : Bool
  deriving Repr

/-- `self._lohis or self._calc_lohis()` -/
def effLohis (cfg : Cfg) (t : Table) : Option Lohis → Except Err Lohis
  | some (p :: l) => .ok (p :: l)
  | _ => t.calcLohis cfg

/-- `if self._lohis: self._lohis = {}` -/
def resetCache : Option Lohis → Option Lohis
  | some (_ :: _) => some []
  | c => c

/-- the keyword branch of `Table.where` after `self._lohis = …` -/
def Table.pwhereWith (cfg : Cfg) (t : Table) (lohis : Lohis) (comparison : Option Op)
    (kws : List (Nat × Arg)) : Except Err Table := do
  let n ← t.len
  let selection ← whereLoop cfg t lohis n comparison kws
  let selection := if kws.length > 1 then sortDedupNat selection else selection
  let sel ← composeSel t.sel selection
  pure { t with sel := sel }

/-- the body of `Table.groupby` after `self._lohis = …` -/
def Table.groupbyWith (t : Table) (lohis : Lohis) (level : Nat) (select : Select) : Except Err (List GroupOut) :=
  match (t.indexes.take level).mapM t.col with
  | .error e => .error e
  | .ok grpCols =>
    match optGet t.indexes[level]? with
    | .error e => .error e
    | .ok ixcol =>
      match dictGet lohis ixcol with
      | .error e => .error e
      | .ok segs =>
        match selectCols t select with
        | .error e => .error e
        | .ok selCols => segs.mapM (groupOne select grpCols selCols)

/-- `Table.index` with the cache: the three early returns leave `_lohis` alone, otherwise
`self._lohis = self._calc_lohis()` -/
def Table.indexC (cfg : Cfg) (t : Table) (cache : Option Lohis) (indx : List Nat) : Except Err (Table × Option Lohis) :=
  if indx.isEmpty then .ok (t, cache)
  else if t.data.isEmpty then .ok (t, cache)
  else if t.indexes = effIndex cfg t indx then .ok (t, cache)
  else
    match t.index cfg indx with
    | .error e => .error e
    | .ok t' =>
      match t'.calcLohis cfg with
      | .error e => .error e
      | .ok l => .ok (t', some l)

/-- `Table.insert` with the cache (same branches as `Table.insert`) -/
def Table.insertC (cfg : Cfg) (t : Table) (cache : Option Lohis) (d : InsertData) : Except Err (Table × Option Lohis) :=
  match t.insertRaw cfg d with
  | .error e => .error e
  | .ok t' =>
    if cfg.resortInsert && !d.isEmpty && !t'.indexes.isEmpty then
      match t'.inIndexOrder (match t.len with | .ok n => n | .error _ => 0) with
      | .le => .ok (t', resetCache cache)
      | .cannot => .ok ({ t' with indexes := [] }, resetCache cache)
      | .gt =>
        match Table.indexC cfg { t' with indexes := [] } (resetCache cache) t'.indexes with
        | .ok r => .ok r
        | .error .typeError => .ok ({ t' with indexes := [] }, resetCache cache)
        | .error e => .error e
    else .ok (t', if d.isEmpty then cache else resetCache cache)

/-- after a mutation through object `i`: every object shows the mutated dict; the others are no longer fresh -/
def shareC (d : List (Nat × List Cell)) (os : List (Option CObj)) : List (Option CObj) :=
  os.map (fun o => o.map (fun u => { u with t := { u.t with data := d }, fresh := false }))

/-- one step of the machine with caches (same shape as `step`) -/
def stepC (cfg : Cfg) (os : List (Option CObj)) (op : TOp) : List (Option CObj) × Obs :=
  let target (i : Nat) : Option CObj := (os[i]?).bind id
  match op with
  | .skip creates => (if creates then os ++ [Option.none] else os, .skipped)
  | .peek i =>
    match target i with
    | Option.none => (os, .skipped)
    | some o => (os, observe o.t)
  | .insert i d =>
    match target i with
    | Option.none => (os, .skipped)
    | some o => match o.t.insertC cfg o.cache d with
      | .ok (t', c') => (setAt (shareC t'.data os) i (some { t := t', cache := c', fresh := o.fresh }), observe t')
      | .error e => (setAt os i Option.none, .err e)
  | .index i cols =>
    match target i with
    | Option.none => (os, .skipped)
    | some o => match o.t.indexC cfg o.cache cols with
      | .ok (t', c') => (setAt (shareC t'.data os) i (some { t := t', cache := c', fresh := o.fresh }), observe t')
      | .error e => (setAt os i Option.none, .err e)
  | .whr i pred cmp kws =>
    match target i with
    | Option.none => (os ++ [Option.none], .skipped)
    | some o =>
      match pred with
      | some p =>
        match o.t.pwhere cfg (some p) cmp kws with
        | .ok t' => (os ++ [some { t := t', cache := Option.none, fresh := o.fresh }], observe t')
        | .error e => (os ++ [Option.none], .err e)
      | Option.none =>
        match effLohis cfg o.t o.cache with
        | .error e => (os ++ [Option.none], .err e)
        | .ok l =>
          match o.t.pwhereWith cfg l cmp kws with
          | .ok t' => (setAt os i (some { o with cache := some l }) ++ [some { t := t', cache := Option.none, fresh := o.fresh }], observe t')
          | .error e => (setAt os i (some { o with cache := some l }) ++ [Option.none], .err e)
  | .groupby i level select =>
    match target i with
    | Option.none => (os, .skipped)
    | some o =>
      match effLohis cfg o.t o.cache with
      | .error e => (os, .err e)
      | .ok l =>
        match o.t.groupbyWith l level select with
        | .ok gs => (setAt os i (some { o with cache := some l }), .groups gs)
        | .error e => (setAt os i (some { o with cache := some l }), .err e)
  | .copy i =>
    match target i with
    | Option.none => (os ++ [Option.none], .skipped)
    | some o => (os ++ [some { o with t := o.t.copy }], observe o.t.copy)

def runOpsC (cfg : Cfg) : List (Option CObj) → List TOp → List Obs
  | _, [] => []
  | os, op :: rest => let r := stepC cfg os op; r.2 :: runOpsC cfg r.1 rest

def finalC (cfg : Cfg) : List (Option CObj) → List TOp → List (Option CObj)
  | os, [] => os
  | os, op :: rest => finalC cfg (stepC cfg os op).1 rest

def initC (init : Init) : List (Option CObj) := [some { t := init.table, cache := Option.none, fresh := true }]

def runC (cfg : Cfg) (init : Init) (ops : List TOp) : List Obs :=
  observe init.table :: runOpsC cfg (initC init) ops

/-- the side condition of a step of the machine with caches: an operation on a fresh object meets the
data-only condition `opOK` of the linear machine; nothing is asked of operations on stale objects -/
def opOKC (cfg : Cfg) (os : List (Option CObj)) : TOp → Bool
  | .insert i d => (match (os[i]?).bind id with | some o => !o.fresh || opOK cfg o.t (.insert d) | Option.none => true)
  | .index i cols => (match (os[i]?).bind id with | some o => !o.fresh || opOK cfg o.t (.index cols) | Option.none => true)
  | .whr i Option.none cmp kws => (match (os[i]?).bind id with | some o => !o.fresh || opOK cfg o.t (.whereK cmp kws) | Option.none => true)
  | .whr i (some p) _ _ => (match (os[i]?).bind id with | some o => !o.fresh || opOK cfg o.t (.whereP p) | Option.none => true)
  | _ => true

def OKC (cfg : Cfg) : List (Option CObj) → List TOp → Bool
  | _, [] => true
  | os, op :: rest => opOKC cfg os op && OKC cfg (stepC cfg os op).1 rest

/-- coherence of a cache as a check: `None`, `{}`, or what `_calc_lohis` gives now -/
def cohB (cfg : Cfg) (t : Table) : Option Lohis → Bool
  | Option.none => true
  | some [] => true
  | some l => (match t.calcLohis cfg with | .ok l' => decide (l' = l) | .error _ => false)


/-! ## Phase 5: `sorted()` as a comparison sort

`sorted()` never looks at its members except through `<`.  `sortE` is a stable insertion sort that asks the
RAISING comparison `pyLt` (a `TypeError` of any comparison it makes aborts the sort, as in CPython).
`Lemmas`: `sortE` with `pyLt` equals `pySorted` / `pySortedBy` for EVERY list (`Missing` included), so the
"TypeError iff two non-Missing members are incomparable" reading of `sorted()` is a theorem about a comparison sort,
not an assumption. -/

def insertE {α} (lt : α → α → Except Err Bool) (x : α) : List α → Except Err (List α)
  | [] => .ok [x]
  | y :: ys =>
    match lt y x with
    | .error e => .error e
    | .ok true => (match insertE lt x ys with | .error e => .error e | .ok r => .ok (y :: r))
    | .ok false => .ok (x :: y :: ys)

def sortE {α} (lt : α → α → Except Err Bool) : List α → Except Err (List α)
  | [] => .ok []
  | x :: xs => match sortE lt xs with | .error e => .error e | .ok s => insertE lt x s

def pySortedE (vs : List Cell) : Except Err (List Cell) := sortE pyLt vs
def pySortedByE (k : Nat → Cell) (xs : List Nat) : Except Err (List Nat) := sortE (fun i j => pyLt (k i) (k j)) xs

/-! ## Phase 5: what a `Table` / `View` shows besides `list(table)`: `to_dicts`, `__len__`, column access -/

/-- `to_dicts()`: `map(dict, map(zip, repeat(columns), zip(*map(self._data.__getitem__, columns))))` -/
def Table.toDicts (t : Table) : Except Err (List (List (Nat × Cell))) :=
  match t.rows with
  | .error e => .error e
  | .ok R => .ok (R.map (fun r => t.columns.zip r))

/-- which class `t[c]` is: 0 the stored `list`, 1 `SliceView`, 2 `ListView` -/
def Sel.kind : Sel → Nat
  | .all => 0 | .slice _ _ => 1 | .list _ => 2

/-- what can be seen of `t[c]`: its class, `len`, `list(...)`, `[0]` and `[-1]` -/
structure ColObs where
  kind : Nat
  len : Nat
  items : Except Err (List Cell)
  first : Except Err Cell
  last : Except Err Cell

def Table.colObs (t : Table) (c : Nat) : Except Err ColObs :=
  match t.col c with
  | .error e => .error e
  | .ok s => .ok { kind := s.sel.kind, len := s.len, items := s.toList, first := s.get 0, last := s.getLast }

end Coba.C17
