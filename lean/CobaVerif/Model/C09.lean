/-
Model of the ordering / selection filters of coba
(`coba/pipes/filters.py`: Shuffle, Take, Slice, Reservoir, Cache;
 `coba/environments/filters.py`: Shuffle, Take, Slice, Reservoir, Sort, Riffle, Where, Cache,
 Chunk, Params, Identity, Batch, Unbatch).

Core Lean only + the finished model of `coba/random.py` (`Model/C05`).  Interactions are an
abstract element type `α`; the few attributes a filter looks at (is it a logged interaction,
its context, its number of actions, its key/value record) are accessor parameters, so every
theorem holds for every element type and every accessor.

Each function mirrors what the code does (the code *with* the proposed fixes
`fixes/C09-*.diff`; see notes/C09.md); the specs (`…Spec`) say what the property demands.
-/
import CobaVerif.Model.C05

namespace Coba.C09

inductive Err
  | typeError | indexError | valueError | zeroDivision | keyError | attributeError | stepsExhausted
deriving Repr, DecidableEq

/-! ## Shuffle -/

/-- `pipes.Shuffle(seed).filter(items)`: copy, then `CobaRandom(seed).shuffle(copy, inplace=True)`.
`s` is the normalised seed (`C05.normInt` / `C05.normBytes`). -/
def pShuffle {α} (s : Nat) (xs : List α) : List α := (C05.shuffle s xs).2

/-- `environments.Shuffle(seed).filter`: nothing for an empty input; when the *first*
interaction is a logged one (`'action' in first and 'reward' in first`) the generator is seeded
with `seed*3.21` (normalised state `sLogged`), otherwise with `seed` (`sPlain`). -/
def eShuffle {α} (isLogged : α → Bool) (sPlain sLogged : Nat) : List α → List α
  | [] => []
  | x :: xs => pShuffle (if isLogged x then sLogged else sPlain) (x :: xs)

/-! ## Take -/

/-- `Take(count, strict).filter`: `islice(items, count)`; strict: nothing unless `count` items
were available.  `count = none` is Python's `None` (everything). -/
def take {α} : Option Nat → Bool → List α → List α
  | none, _, xs => xs
  | some n, strict, xs =>
    let out := xs.take n
    if strict && out.length < n then [] else out

/-- what the property promises: the prefix of length `n`; strict: all `n` or nothing -/
def takeSpec {α} (count : Option Nat) (strict : Bool) (xs : List α) : List α :=
  match count with
  | none => xs
  | some n => if strict && xs.length < n then [] else xs.take n

/-! ## Slice  (`itertools.islice(items, start, stop, step)`, `step ≥ 1`) -/

/-- emit an element, then skip `step-1`, …; `k` = elements still to skip before the next emit -/
def every {α} (step : Nat) : List α → Nat → List α
  | [], _ => []
  | x :: xs, 0 => x :: every step xs (step - 1)
  | _ :: xs, k+1 => every step xs k

def slice {α} (start stop : Option Nat) (step : Nat) (xs : List α) : List α :=
  let upto := match stop with | none => xs | some st => xs.take st
  every step (upto.drop (start.getD 0)) 0

/-- keep exactly the elements whose index satisfies `p` (indices count from `i`) -/
def pick {α} (p : Nat → Bool) : Nat → List α → List α
  | _, [] => []
  | i, x :: xs => if p i then x :: pick p (i+1) xs else pick p (i+1) xs

/-- index `i` is selected by `start:stop:step` -/
def inSlice (start : Nat) (stop : Option Nat) (step : Nat) (i : Nat) : Bool :=
  decide (start ≤ i) && (match stop with | none => true | some st => decide (i < st)) &&
    decide ((i - start) % step = 0)

def sliceSpec {α} (start stop : Option Nat) (step : Nat) (xs : List α) : List α :=
  pick (inSlice (start.getD 0) stop step) 0 xs

/-! ## Reservoir (Algorithm L).  The float quantities `W = W*r1**(1/n)`,
`S = floor(log(r2, 1-W))`, `slot = int(r3*n)` are NOT modelled: one loop iteration is a `Step`
handed in from outside (the harness recomputes them from the uniforms with the code's own float
formulas).  The theorems hold for every list of steps whatsoever. -/

inductive Step
  | skip (S slot : Nat)
  | raise (e : Err)      -- the float computation of this iteration raised
deriving Repr, DecidableEq

/-- the loop `for r1,r2,r3 in …: W=…; S=…; reservoir[slot] = next(islice(items,S,S+1))`,
left by `StopIteration` when fewer than `S+1` items remain -/
def resLoop {α} : List Step → List α → List α → Except Err (List α)
  | [], _, _ => .error .stepsExhausted
  | .raise e :: _, _, _ => .error e
  | .skip S slot :: steps, rest, res =>
    match rest.drop S with
    | [] => .ok res
    | y :: rest' =>
      if slot < res.length then resLoop steps rest' (res.set slot y) else .error .indexError

def reservoir {α} (count : Option Nat) (strict : Bool) (s : Nat) (steps : List Step)
    (xs : List α) : Except Err (List α) :=
  match count with
  | some 0 => .ok []
  | none => .ok (C05.shuffle s xs).2
  | some n =>
    let res := xs.take n
    if res.length < n then .ok (if strict then [] else (C05.shuffle s res).2)
    else resLoop steps (xs.drop n) (C05.shuffle s res).2

/-- a loop iteration that neither raises nor addresses a slot outside the reservoir of size `n` -/
def Step.okFor (n : Nat) : Step → Bool
  | .skip _ slot => decide (slot < n)
  | .raise _ => false

/-- the promised sample size: `min(n,N)` (`None`: everything); strict: `n` or nothing -/
def reservoirSize (count : Option Nat) (strict : Bool) (N : Nat) : Nat :=
  match count with
  | none => N
  | some n => if strict && decide (N < n) then 0 else min n N

/-- generator state after the initial shuffle of the reservoir (where the triples start) -/
def reservoirState {α} (count : Option Nat) (s : Nat) (xs : List α) : Nat :=
  match count with
  | some n => (C05.shuffle s (xs.take n)).1
  | none => (C05.shuffle s xs).1

/-! ## Sort -/

/-- a context value: a number (exact rational) or a string (code points) -/
inductive Val
  | num (q : Rat)
  | str (s : List Nat)
deriving Repr, DecidableEq

/-- Python's sequence comparison `<` over a strict order `lt` of the elements -/
def lexLt {β} (lt : β → β → Bool) : List β → List β → Bool
  | [], [] => false
  | [], _ :: _ => true
  | _ :: _, [] => false
  | a :: as, b :: bs => if lt a b then true else if lt b a then false else lexLt lt as bs

/-- numbers by value, strings by code points; a number against a string raises in Python
(never generated) — totalised here as number < string -/
def Val.lt : Val → Val → Bool
  | .num a, .num b => decide (a < b)
  | .str a, .str b => lexLt (fun x y => decide (x < y)) a b
  | .num _, .str _ => true
  | .str _, .num _ => false

abbrev Key := List Val
def keyLt (a b : Key) : Bool := lexLt Val.lt a b
/-- `¬ (b < a)`: the order `sorted` establishes -/
def keyLe (a b : Key) : Bool := !keyLt b a

inductive Ctx
  | none
  | scalar (v : Val)
  | dense (vs : List Val)
  | sparse (kvs : List (Val × Val))
deriving Repr

def Ctx.isSparse : Ctx → Bool | .sparse _ => true | _ => false

def lookupVal (k : Val) : List (Val × Val) → Option Val
  | [] => none
  | (k', v) :: r => if k' = k then some v else lookupVal k r

/-- Python's `seq[k]` for an integer `k` (negative indices count from the end) -/
def pyIndex {β} (l : List β) (k : Int) : Option β :=
  if 0 ≤ k then l[k.toNat]? else if k + l.length < 0 then none else l[(k + l.length).toNat]?

/-- `context[key]` (the list_sorter's subscription) -/
def subscript (c : Ctx) (k : Val) : Except Err Val :=
  match c, k with
  | .dense vs, .num q =>
    if q.den = 1 then (match pyIndex vs q.num with | some v => .ok v | none => .error .indexError)
    else .error .typeError
  | .dense _, .str _ => .error .typeError
  | .scalar (.str s), .num q =>       -- a string is subscriptable: its k-th character
    if q.den = 1 then (match pyIndex s q.num with | some ch => .ok (.str [ch]) | none => .error .indexError)
    else .error .typeError
  | .scalar (.str _), .str _ => .error .typeError
  | .sparse kvs, k => (match lookupVal k kvs with | some v => .ok v | none => .error .keyError)
  | .scalar (.num _), _ => .error .typeError     -- a number is not subscriptable
  | .none, _ => .error .typeError

def subscripts (c : Ctx) : List Val → Except Err Key
  | [] => .ok []
  | k :: ks =>
    match subscript c k with
    | .error e => .error e
    | .ok v => match subscripts c ks with
      | .error e => .error e
      | .ok vs => .ok (v :: vs)

/-- the three sorter lambdas of `Sort.filter` -/
def sortKey (keys : List Val) (sparseFirst : Bool) (c : Ctx) : Except Err Key :=
  match keys with
  | [] =>            -- full_sorter: tuple(context)
    match c with
    | .dense vs => .ok vs
    | .sparse kvs => .ok (kvs.map (·.1))          -- iterating a dict gives its keys
    | .scalar (.str s) => .ok (s.map (fun ch => .str [ch]))
    | _ => .error .typeError
  | _ :: _ =>
    if sparseFirst then   -- dict_sorter: context.get(key,0)
      match c with
      | .sparse kvs => .ok (keys.map (fun k => match lookupVal k kvs with | some v => v | none => .num 0))
      | _ => .error .attributeError                -- only a dict has `.get`
    else subscripts c keys  -- list_sorter: context[key]

/-- stable insertion: `a` goes before the first element that is not smaller -/
def insertBy {α} (le : α → α → Bool) (a : α) : List α → List α
  | [] => [a]
  | b :: l => if le a b then a :: b :: l else b :: insertBy le a l

/-- the stable sort (`sorted` is stable; for a total preorder the stable sorted arrangement is
unique, so any stable algorithm gives Python's result) -/
def isort {α} (le : α → α → Bool) : List α → List α
  | [] => []
  | a :: l => insertBy le a (isort le l)

def sortBy {α K} (le : K → K → Bool) (key : α → K) (xs : List α) : List α :=
  isort (fun a b => le (key a) (key b)) xs

/-- decorate every element with its key (first failure wins, as in `sorted(…, key=…)`) -/
def decorate {α} (keyOf : α → Except Err Key) : List α → Except Err (List (Key × α))
  | [] => .ok []
  | a :: l =>
    match keyOf a with
    | .error e => .error e
    | .ok k => match decorate keyOf l with
      | .error e => .error e
      | .ok r => .ok ((k, a) :: r)

/-- `Sort(*keys).filter` -/
def sortF {α} (hasCtx : α → Bool) (ctx : α → Ctx) (keys : List Val) : List α → Except Err (List α)
  | [] => .ok []
  | x :: xs =>
    if !hasCtx x then .ok (x :: xs)      -- `'context' not in first`: passed through
    else
      match decorate (fun a => sortKey keys (ctx x).isSparse (ctx a)) (x :: xs) with
      | .error e => .error e
      | .ok kxs => .ok ((sortBy keyLe (·.1) kxs).map (·.2))

/-! ## Where -/

def inMinMax (v : Nat) (mn mx : Option Nat) : Bool :=
  (match mn with | none => true | some m => decide (m ≤ v)) &&
  (match mx with | none => true | some m => decide (v ≤ m))

/-- `Where._context_len` on the first interaction's context -/
def ctxLen : Ctx → Nat
  | .none => 0
  | .scalar _ => 1
  | .dense vs => vs.length
  | .sparse kvs => kvs.length

abbrev Range := Option Nat × Option Nat

/-- how many interactions `Where.filter` peeks at to decide the interaction-count bounds without
reading everything: one more than the upper bound (else than the lower bound) -/
def peekCount (nInt : Range) : Nat :=
  1 + (match nInt.2, nInt.1 with | some mx, _ => mx | none, some mn => mn | none, none => 0)

/-- the peek count of the code *before* fix `C09-where-two-sided-range` (lower bound first); kept
only for the counterexample theorem -/
def peekCountMinFirst (nInt : Range) : Nat :=
  1 + (match nInt.1, nInt.2 with | some mn, _ => mn | none, some mx => mx | none, none => 0)

/-- `Where.filter` -/
def whereF {α} (fetLen : α → Nat) (nAct : α → Nat) (nInt nActB nFet : Range) : List α → List α
  | [] => []
  | x :: xs =>
    let first := (x :: xs).take (peekCount nInt)
    if !inMinMax first.length nInt.1 nInt.2 then []
    else if !inMinMax (fetLen x) nFet.1 nFet.2 then []
    else (x :: xs).filter (fun a => (nActB.1.isNone && nActB.2.isNone) || inMinMax (nAct a) nActB.1 nActB.2)

def whereSpec {α} (fetLen : α → Nat) (nAct : α → Nat) (nInt nActB nFet : Range) (xs : List α) : List α :=
  match xs with
  | [] => []
  | x :: _ =>
    if inMinMax xs.length nInt.1 nInt.2 && inMinMax (fetLen x) nFet.1 nFet.2
    then xs.filter (fun a => inMinMax (nAct a) nActB.1 nActB.2)
    else []

/-! ## Riffle -/

/-- `list.pop()` then `list.insert(idx, popped)` (Python clamps `idx` to the length) -/
def popInsert {α} (idx : Nat) (l : List α) : List α :=
  match l.getLast? with
  | none => l
  | some z => let init := l.dropLast; init.insertIdx (min idx init.length) z

def riffleLoop {α} (spacing : Nat) : Nat → Nat → Nat → List α → List α
  | 0, _, _, l => l
  | k+1, i, s, l =>
    let r := C05.randint s 0 spacing
    riffleLoop spacing k (i+1) r.1 (popInsert (i * spacing + r.2.toNat) l)

/-- `Riffle(spacing, seed).filter`: `int(len/(spacing+1))` iterations -/
def riffle {α} (spacing s : Nat) (xs : List α) : List α :=
  riffleLoop spacing (xs.length / (spacing + 1)) 0 s xs

/-! ## Batch / Unbatch.  An interaction is a record `key ↦ value` (assoc list in key order). -/

abbrev Rec (V : Type) := List (String × V)

def lookupKey {V} (k : String) : Rec V → Option V
  | [] => none
  | (k', v) :: r => if k' = k then some v else lookupKey k r

/-- `Batch._batched`: lists of length `k`, the last may be shorter (`k ≥ 1`) -/
def chunkGo {α} (k : Nat) : List α → List α → List (List α)
  | [], cur => if cur.isEmpty then [] else [cur]
  | x :: xs, cur =>
    let cur' := cur ++ [x]
    if cur'.length = k then cur' :: chunkGo k xs [] else chunkGo k xs cur'

def chunks {α} (k : Nat) (xs : List α) : List (List α) := chunkGo k xs []

def column {V} (k : String) : List (Rec V) → Except Err (List V)
  | [] => .ok []
  | r :: rs =>
    match lookupKey k r with
    | none => .error .keyError           -- `itemgetter(key)` on a record without the key
    | some v => match column k rs with
      | .error e => .error e
      | .ok vs => .ok (v :: vs)

/-- one batched interaction: for every key *of the first interaction* the list of the values -/
def batchCols {V} : List String → List (Rec V) → Except Err (List (String × List V))
  | [], _ => .ok []
  | k :: ks, b =>
    match column k b with
    | .error e => .error e
    | .ok vs => match batchCols ks b with
      | .error e => .error e
      | .ok r => .ok ((k, vs) :: r)

def batchAll {V} (keys : List String) : List (List (Rec V)) → Except Err (List (List (String × List V)))
  | [] => .ok []
  | b :: bs =>
    match batchCols keys b with
    | .error e => .error e
    | .ok c => match batchAll keys bs with
      | .error e => .error e
      | .ok cs => .ok (c :: cs)

inductive Batched (V : Type)
  | plain (r : Rec V)
  | batch (cols : List (String × List V))
deriving Repr

/-- `Batch(size).filter`; `size = 0`/`None` passes the interactions through unbatched -/
def batchF {V} (size : Nat) (xs : List (Rec V)) : Except Err (List (Batched V)) :=
  match xs with
  | [] => .ok []
  | first :: _ =>
    if size = 0 then .ok (xs.map .plain)
    else match batchAll (first.map (·.1)) (chunks size xs) with
      | .error e => .error e
      | .ok cs => .ok (cs.map .batch)

/-- row `i` of every column (`new[k] = interaction[k][i]`), for all rows -/
def unbatchCols {V} : List (String × List V) → Nat → List (Rec V)
  | [], n => List.replicate n []
  | (k, vs) :: cols, n => List.zipWith (fun v r => (k, v) :: r) vs (unbatchCols cols n)

def unbatchOne {V} : Batched V → List (Rec V)
  | .plain r => [r]
  | .batch cols => unbatchCols cols (match cols with | [] => 0 | (_, vs) :: _ => vs.length)

/-- `Unbatch().filter`: whether anything is batched is decided on the first interaction -/
def unbatchF {V} : List (Batched V) → List (Rec V)
  | [] => []
  | .plain r :: rest => r :: rest.flatMap (fun b => match b with | .plain r => [r] | .batch _ => [])
  | .batch c :: rest => (Batched.batch c :: rest).flatMap unbatchOne

/-- all records carry exactly the key list `ks` (one interaction kind), keys distinct (a dict) -/
def uniformKeys {V} (ks : List String) (xs : List (Rec V)) : Prop :=
  ks.Nodup ∧ ∀ r ∈ xs, r.map (·.1) = ks

/-! ## Cache (`pipes.Cache`, read sequentially any number of times, reads may be abandoned) -/

structure CacheSt (α : Type) where
  cache : List α
  /-- what the kept iterator has not produced yet; `none` = iterator finished and dropped -/
  rest : Option (List α)
deriving Repr

/-- one read of `Cache(nSlice).filter(items)` of which the caller consumes `k` items
(`none` = to the end).  A generator that is never advanced does nothing at all. -/
def cacheRead {α} (nSlice : Nat) (items : List α) (st : Option (CacheSt α)) (k : Option Nat) :
    Option (CacheSt α) × List α :=
  match k with
  | some 0 => (st, [])
  | _ =>
    let st0 : CacheSt α := match st with | none => { cache := [], rest := some items } | some c => c
    match st0.rest with
    | none => (some st0, match k with | none => st0.cache | some k => st0.cache.take k)
    | some rest =>
      match k with
      | none => (some { cache := st0.cache ++ rest, rest := none }, st0.cache ++ rest)
      | some k =>
        -- slices of nSlice are fetched until k items have been delivered
        let need := k - st0.cache.length
        let fetched := min (((need + nSlice - 1) / nSlice) * nSlice) rest.length
        (some { cache := st0.cache ++ rest.take fetched, rest := some (rest.drop fetched) },
         (st0.cache ++ rest).take k)

/-- a history of reads on one Cache object -/
def cacheRun {α} (nSlice : Nat) (items : List α) : Option (CacheSt α) → List (Option Nat) → List (List α)
  | _, [] => []
  | st, k :: ks => let r := cacheRead nSlice items st k; r.2 :: cacheRun nSlice items r.1 ks

/-- invariant of a Cache object that has only ever been read on `items` -/
def cacheInv {α} (items : List α) : Option (CacheSt α) → Prop
  | none => True
  | some st => match st.rest with
    | none => st.cache = items
    | some rest => st.cache ++ rest = items

/-- what a read of which `k` items are consumed must deliver -/
def readSpec {α} (items : List α) : Option Nat → List α
  | none => items
  | some k => items.take k

/-! ## Identity, Chunk, Params -/
def identityF {α} (xs : List α) : List α := xs

/-! # Phase 2 -/

/-! ## Seeds of every kind.  `CobaRandom(seed)`: an `int` or an integral `float` is used as an
integer; anything else goes through `int.from_bytes(str(seed).encode()) % 2**20`
(`str` itself is CPython's: the bytes are handed in). -/

inductive Seed
  | int (i : Int)
  | bytes (bs : List Nat)
deriving Repr

def Seed.norm : Seed → Nat
  | .int i => C05.normInt i
  | .bytes bs => C05.normBytes bs

def shuffleSeeded {α} (sd : Seed) (xs : List α) : List α := pShuffle sd.norm xs
/-- `environments.Shuffle(seed)`: `lsd` is the seed `seed*3.21` (a float product, computed outside) -/
def eShuffleSeeded {α} (isLogged : α → Bool) (sd lsd : Seed) (xs : List α) : List α :=
  eShuffle isLogged sd.norm lsd.norm xs
def riffleSeeded {α} (spacing : Nat) (sd : Seed) (xs : List α) : List α := riffle spacing sd.norm xs

/-! ## Reservoir with the actual formulas over an abstract float arithmetic.
`R` is the number type (`Float` in the driver, anything in the theorems); the operations are the
ones the loop uses, in the order it uses them:
`W = W*r1**x; S = floor(log(r2, 1-W)); slot = int(r3*count)`, `math.log(a,b) = log(a)/log(b)`. -/

structure FloatOps (R : Type) where
  ofUnif : Nat → R             -- k ↦ k / 2^30   (a uniform)
  one : R
  inv : Nat → R                -- 1/count
  mul : R → R → R
  pw : R → R → R               -- r ** x
  oneMinus : R → R             -- 1 - W
  lg : R → R                   -- natural log on its domain
  pos : R → Bool               -- 0 < x   (outside: `math domain error`)
  isZero : R → Bool            -- a zero divisor
  quotFloor : R → R → Nat      -- floor(a / b)
  slot : R → Nat → Nat         -- int(r3 * count)

/-- one loop iteration: the new `W` and what happens -/
def floatStep {R} (ops : FloatOps R) (count : Nat) (W : R) (k1 k2 k3 : Nat) : R × Step :=
  let W' := ops.mul W (ops.pw (ops.ofUnif k1) (ops.inv count))
  let r2 := ops.ofUnif k2
  if !ops.pos r2 then (W', .raise .valueError)          -- log(r2)
  else
    let base := ops.oneMinus W'
    if !ops.pos base then (W', .raise .valueError)      -- log(1-W)
    else
      let d := ops.lg base
      if ops.isZero d then (W', .raise .zeroDivision)   -- log(r2)/log(1-W)
      else (W', .skip (ops.quotFloor (ops.lg r2) d) (ops.slot (ops.ofUnif k3) count))

/-- does the guard of fix C09-F1 let the triple through (`if r1 == 0 or r2 == 0: continue`) -/
def guardOk (t : Nat × Nat × Nat) : Bool := !(t.1 == 0 || t.2.1 == 0)

/-- the steps the loop performs on a stream of uniform triples (numerators); stops at a raise -/
def floatSteps {R} (ops : FloatOps R) (count : Nat) : R → List (Nat × Nat × Nat) → List Step
  | _, [] => []
  | W, t :: ts =>
    if guardOk t then
      match floatStep ops count W t.1 t.2.1 t.2.2 with
      | (_, .raise e) => [.raise e]
      | (W', st) => st :: floatSteps ops count W' ts
    else floatSteps ops count W ts

/-- consecutive LCG uniforms, three at a time -/
def triples : Nat → Nat → List (Nat × Nat × Nat)
  | _, 0 => []
  | s, n+1 =>
    let s1 := C05.next s
    let s2 := C05.next s1
    let s3 := C05.next s2
    (s1, s2, s3) :: triples s3 n

/-- `Reservoir(count, strict, seed).filter` with nothing handed in: uniforms from the LCG after the
initial shuffle, steps by the float formulas (`nT` triples are enough when `nT` exceeds the length
by the number of guarded triples) -/
def reservoirF {R α} (ops : FloatOps R) (count : Option Nat) (strict : Bool) (s nT : Nat) (xs : List α) :
    Except Err (List α) :=
  let steps := match count with
    | some n => floatSteps ops n ops.one (triples (reservoirState count s xs) nT)
    | none => []
  reservoir count strict s steps xs

/-- what the proof of `reservoir_total` needs of the arithmetic; `U x` reads "x is strictly
between 0 and 1".  All laws hold for real arithmetic.  IEEE doubles break `oneMinus_unit`
(`1-W == 1.0` for `W < 2^-53`), `mul_unit` (underflow to 0) and `pw_unit` (`r**x == 1.0` for
`x < 2^-24`, `r = 1-2^-30`). -/
structure FloatLaws {R} (ops : FloatOps R) (U : R → Prop) : Prop where
  unif : ∀ k, 0 < k → k < C05.M → U (ops.ofUnif k)
  pw_unit : ∀ r n, U r → 0 < n → U (ops.pw r (ops.inv n))
  mul_one : ∀ p, U p → U (ops.mul ops.one p)
  mul_unit : ∀ w p, U w → U p → U (ops.mul w p)
  oneMinus_unit : ∀ w, U w → U (ops.oneMinus w)
  pos_unit : ∀ r, U r → ops.pos r = true
  lg_ne_zero : ∀ r, U r → ops.isZero (ops.lg r) = false
  slot_lt : ∀ k n, k < C05.M → 0 < n → ops.slot (ops.ofUnif k) n < n

/-- exact rational stand-in (logarithm replaced by `r-1`, power by `r`): shows the laws are
satisfiable and is used for closed-term witnesses -/
def ratOps : FloatOps Rat where
  ofUnif k := (k : Rat) / (C05.M : Rat)
  one := 1
  inv n := 1 / (n : Rat)
  mul a b := a * b
  pw r _ := r
  oneMinus w := 1 - w
  lg r := r - 1
  pos x := decide (0 < x)
  isZero x := decide (x = 0)
  quotFloor a b := (a / b).floor.toNat
  slot r n := (r * (n : Rat)).floor.toNat

/-- the same with the rounding of `1-W` to 53 bits imitated: below 2^-53 the difference is 1 -/
def roundingOps : FloatOps Rat :=
  { ratOps with oneMinus := fun w => if w < 1 / 9007199254740992 then 1 else 1 - w }

/-! ## BatchSafe -/

/-- `len(first_val) if is_batch(first_val) else None` on the first interaction (0 = falsy) -/
def firstBatchSize {V} : Batched V → Nat
  | .plain _ => 0
  | .batch [] => 0
  | .batch ((_, vs) :: _) => vs.length

/-- `BatchSafe(G).filter`: nothing for an empty input; un-batched input goes straight through `G`;
batched input is unbatched, filtered and re-batched with the size of the first batch.
`G` works on interactions as they come (batched or not). -/
def batchSafe {V} (G : List (Batched V) → Except Err (List (Batched V))) :
    List (Batched V) → Except Err (List (Batched V))
  | [] => .ok []
  | first :: rest =>
    let bs := firstBatchSize first
    if bs = 0 then G (first :: rest)
    else
      match G ((unbatchF (first :: rest)).map .plain) with
      | .error e => .error e
      | .ok ys => batchF bs (unbatchF ys)

/-- a filter on records seen as a filter on (un-batched) interactions -/
def liftF {V} (F : List (Rec V) → Except Err (List (Rec V))) (xs : List (Batched V)) :
    Except Err (List (Batched V)) :=
  match F (unbatchF xs) with
  | .error e => .error e
  | .ok ys => .ok (ys.map .plain)

/-! ## Collections of environments.  A filter object is a state machine: `read st env k` is one
read of its pipeline on environment `env` of which the caller consumes `k` items (`none`: all). -/

structure Filt (σ E β : Type) where
  init : σ
  read : σ → E → Option Nat → σ × β

/-- `Environments(env_0, env_1, …).<shortcut>()`: one FRESH filter object per environment
(`st k` = state of the filter attached to environment `k`); a history of reads `(k, consumed)` -/
def runColl {σ E β} (f : Filt σ E β) (envs : Nat → E) (st : Nat → σ) : List (Nat × Option Nat) → List (Nat × β)
  | [] => []
  | (k, c) :: h =>
    let r := f.read (st k) (envs k) c
    (k, r.2) :: runColl f envs (fun j => if j = k then r.1 else st j) h

/-- the reads of one environment with its own filter object, alone -/
def runAlone {σ E β} (f : Filt σ E β) (env : E) : σ → List (Option Nat) → List β
  | _, [] => []
  | s, c :: cs => let r := f.read s env c; r.2 :: runAlone f env r.1 cs

/-- what a (wrong) implementation sharing ONE filter object between all environments computes -/
def runShared {σ E β} (f : Filt σ E β) (envs : Nat → E) : σ → List (Nat × Option Nat) → List (Nat × β)
  | _, [] => []
  | s, (k, c) :: h => let r := f.read s (envs k) c; (k, r.2) :: runShared f envs r.1 h

/-- `Cache(nSlice)` as a filter object -/
def cacheFilt {α} (nSlice : Nat) : Filt (Option (CacheSt α)) (List α) (List α) where
  init := none
  read st items k := cacheRead nSlice items st k

/-- a filter without state (everything else): a read consumed up to `k` delivers a prefix -/
def statelessFilt {E α} (F : E → Except Err (List α)) : Filt Unit E (Except Err (List α)) where
  init := ()
  read _ env k := ((), match k with
    | none => F env
    | some k => match F env with | .ok l => .ok (l.take k) | .error e => .error e)

/-! # Phase 3 -/

/-! ## BatchSafe on arbitrary sequences of batches.  An inner filter that treats interactions as
opaque items (`G` below, e.g. the polymorphic selection filters at element type `Batched V`) sees
un-batched interactions in the normal case and the *batches themselves* when the first batch is
empty (`batch_size = 0` is falsy).  `agreesOnPlain G F`: on un-batched interactions `G` is the
record filter `F`. -/

def agreesOnPlain {V} (G : List (Batched V) → Except Err (List (Batched V)))
    (F : List (Rec V) → Except Err (List (Rec V))) : Prop :=
  ∀ recs, G (recs.map .plain) = (match F recs with | .error e => .error e | .ok ys => .ok (ys.map .plain))

/-- an empty batch with the given keys (what `Batch` never produces but a caller can hand in) -/
def emptyBatch {V} (ks : List String) : Batched V := .batch (ks.map (fun k => (k, [])))

/-! ## Several filters per shortcut: `Environments.filter([f_0, f_1, …])` builds
`[join(env, f) for env in envs for f in filters]`; `shuffle(seeds=…)` additionally sorts the
members by seed (`sorted` is stable). -/

def productMembers (nEnv nFilt : Nat) : List (Nat × Nat) :=
  (List.range nEnv).flatMap (fun i => (List.range nFilt).map (fun j => (i, j)))

/-- `sorted(members, key=seed of the member's filter)` -/
def sortedMembers (seedOf : Nat → Nat) (nEnv nFilt : Nat) : List (Nat × Nat) :=
  sortBy (fun a b => decide (a ≤ b)) (fun m : Nat × Nat => seedOf m.2) (productMembers nEnv nFilt)

/-- the collection as the code holds it: member `m` is environment `i` behind filter `j` -/
def memberEnv {E Φ} (envs : Nat → E) (filters : Nat → Φ) (members : List (Nat × Nat)) (dflt : Nat × Nat) (m : Nat) : E × Φ :=
  let p := (members[m]?).getD dflt
  (envs p.1, filters p.2)

/-! ## Unbatch on arbitrary input (mixed plain / batched interactions, the bare `except:`).
A value is an atom or a sequence; a cell of an interaction is a plain value or a batch column. -/

inductive PV
  | atom (t : Nat)
  | seq (vs : List PV)
deriving Repr

inductive Cell
  | val (v : PV)
  | col (vs : List PV)       -- a `Batch.List`
deriving Repr

abbrev CRec := List (String × Cell)

def lookupCell (k : String) : CRec → Option Cell
  | [] => none
  | (k', v) :: r => if k' = k then some v else lookupCell k r

def Cell.isBatch : Cell → Bool | .col _ => true | .val _ => false

/-- `len(x)`: a number has none -/
def cellLen : Cell → Except Err Nat
  | .col vs => .ok vs.length
  | .val (.seq vs) => .ok vs.length
  | .val (.atom _) => .error .typeError

/-- `try: new[k] = interaction[k][i]  except: new[k] = interaction[k]` -/
def cellAt (c : Cell) (i : Nat) : Cell :=
  match c with
  | .col vs => (match vs[i]? with | some v => .val v | none => c)
  | .val (.seq vs) => (match vs[i]? with | some v => .val v | none => c)
  | .val (.atom _) => c

def rowsOf (r : CRec) (n : Nat) : List CRec :=
  (List.range n).map (fun i => r.map (fun kv => (kv.1, cellAt kv.2 i)))

/-- `Unbatch._unbatch` for one interaction; `bk` = the first batched key of the FIRST interaction -/
def unbatchRec (bk : String) (r : CRec) : Except Err (List CRec) :=
  match lookupCell bk r with
  | none => .error .keyError
  | some c => match cellLen c with
    | .error e => .error e
    | .ok n => .ok (rowsOf r n)

def unbatchAll (bk : String) : List CRec → Except Err (List CRec)
  | [] => .ok []
  | r :: rs =>
    match unbatchRec bk r with
    | .error e => .error e
    | .ok rows => match unbatchAll bk rs with
      | .error e => .error e
      | .ok rest => .ok (rows ++ rest)

/-- `Unbatch().filter` as the code does it: whether and by which key to unbatch is decided on the
first interaction only -/
def unbatchG : List CRec → Except Err (List CRec)
  | [] => .ok []
  | first :: rest =>
    match first.find? (fun kv => kv.2.isBatch) with
    | none => .ok (first :: rest)                 -- nothing batched in the first one: passed through
    | some (bk, _) => unbatchAll bk (first :: rest)

/-- a fully batched interaction: every cell a column, all of one length -/
def wfBatch (r : CRec) (n : Nat) : Prop := ∀ kv ∈ r, ∃ vs, kv.2 = .col vs ∧ vs.length = n

/-- its rows, by transposition -/
def rowsSpec (r : CRec) (n : Nat) : List CRec :=
  (List.range n).map (fun i => r.filterMap (fun kv => match kv.2 with
    | .col vs => (vs[i]?).map (fun v => (kv.1, Cell.val v))
    | .val _ => none))

/-! # Phase 4 -/

/-! ## A pipeline `… → shared Cache → D` (`Environments(env).cache().take(n)`, `.chunk().slice(…)`, …)

Every pipeline built on one `.cache()`d environment shares ONE `pipes.Cache` object.  A read of
such a pipeline pulls `need` items (`none` = to the end) from a generator of that object and then
drops it (closed by the consumer, garbage collected or still alive — `pipes.Cache` keeps its source
iterator in all three cases); the downstream filter `D` sees exactly what it pulled. -/
def cachedRead {α β} (nSlice : Nat) (items : List α) (st : Option (CacheSt α)) (need : Option Nat)
    (D : List α → β) : Option (CacheSt α) × β :=
  let r := cacheRead nSlice items st need
  (r.1, D r.2)

/-- a history of reads `(need, D)` of pipelines that share one Cache object -/
def cachedRun {α β} (nSlice : Nat) (items : List α) :
    Option (CacheSt α) → List (Option Nat × (List α → β)) → List β
  | _, [] => []
  | st, r :: rs => let o := cachedRead nSlice items st r.1 r.2; o.2 :: cachedRun nSlice items o.1 rs

/-- how many items of its input a complete read of `Take(count)` pulls (`islice(items, count)`) -/
def takeNeed (count : Option Nat) : Option Nat := count

/-- how many items of its input a complete read of `Slice(start, stop, step)` pulls -/
def sliceNeed (stop : Option Nat) : Option Nat := stop

/-- the round-g seeded change (`self._iter = None` in a `finally:`): leaving the generator in ANY way,
an abandoned read included, drops the source iterator, so the partial cache counts as complete -/
def cacheReadSealing {α} (nSlice : Nat) (items : List α) (st : Option (CacheSt α)) (k : Option Nat) :
    Option (CacheSt α) × List α :=
  match k with
  | some 0 => (st, [])
  | _ => let r := cacheRead nSlice items st k
         (r.1.map (fun c => { c with rest := none }), r.2)

def cacheRunSealing {α} (nSlice : Nat) (items : List α) : Option (CacheSt α) → List (Option Nat) → List (List α)
  | _, [] => []
  | st, k :: ks => let r := cacheReadSealing nSlice items st k; r.2 :: cacheRunSealing nSlice items r.1 ks

/-! # Phase 5 -/

/-! ## Random / ordering filters as downstream branches of a shared Cache, several environments

How much of its input a downstream filter pulls out of the cache generator is part of the code:
`Riffle.filter` is a plain function (`interactions = list(interactions)` runs when the pipeline is
READ, even if the consumer never takes an item); `Shuffle.filter`, `Sort.filter` and
`Reservoir.filter` are generators that materialise their whole input at their first `next`
(`peek_first` + `list`, `sorted`, the Algorithm-L loop that runs into `StopIteration`) and do nothing
when they are never advanced; `Reservoir(0)` never touches its input (`yield from []`). -/
inductive Pull
  | eager
  | onFirst
  | never
deriving DecidableEq, Repr

/-- items pulled from the cache by a read of which the consumer takes `k` items (`none` = all) -/
def pullNeed : Pull → Option Nat → Option Nat
  | .eager, _ => none
  | .onFirst, some 0 => some 0
  | .onFirst, _ => none
  | .never, _ => some 0

/-- what a consumer that takes `k` items of a filter's result (and then leaves) has seen -/
def consume {α} (k : Option Nat) (r : Except Err (List α)) : Except Err (List α) :=
  match r, k with
  | .ok l, some k => .ok (l.take k)
  | r, _ => r

/-- `Environments(e_0, e_1, …).cache()`: every environment behind its OWN Cache object, any number
of downstream pipelines per environment; a read = (environment, items pulled, downstream filter) -/
def multiCachedRun {α β} (nSlice : Nat) (envs : Nat → List α) :
    (Nat → Option (CacheSt α)) → List (Nat × Option Nat × (List α → β)) → List β
  | _, [] => []
  | st, r :: rs =>
    let o := cachedRead nSlice (envs r.1) (st r.1) r.2.1 r.2.2
    o.2 :: multiCachedRun nSlice envs (fun e => if e = r.1 then o.1 else st e) rs

/-- one read of a whole-input branch: environment, how the filter pulls, how much the consumer takes, the filter -/
structure BranchRead (α : Type) where
  env : Nat
  pull : Pull
  k : Option Nat
  F : List α → Except Err (List α)

/-- a history of reads of whole-input branches (shuffle / sort / riffle / reservoir) behind the caches -/
def branchRun {α} (nSlice : Nat) (envs : Nat → List α) (reads : List (BranchRead α)) : List (Except Err (List α)) :=
  multiCachedRun nSlice envs (fun _ => none)
    (reads.map (fun r => (r.env, pullNeed r.pull r.k, fun xs => consume r.k (r.F xs))))

/-- what such a read must deliver: the filter on ALL interactions of its own environment (cut after
`k`); a read that never starts the generator delivers nothing -/
def branchSpec {α} (envs : Nat → List α) (r : BranchRead α) : Except Err (List α) :=
  match pullNeed r.pull r.k with
  | none => consume r.k (r.F (envs r.env))
  | some _ => consume r.k (r.F [])

/-! ## Reservoir: does the run raise?  A check on lengths only (evaluated by the driver on every case) -/

/-- `resLoop` on lengths: does the loop end in `StopIteration` without raising -/
def resLoopOk : List Step → Nat → Nat → Bool
  | [], _, _ => false
  | .raise _ :: _, _, _ => false
  | .skip S slot :: steps, nRest, nRes =>
    if nRest ≤ S then true else decide (slot < nRes) && resLoopOk steps (nRest - S - 1) nRes

/-- does `Reservoir(count).filter` of `N` interactions return (given the loop's steps) -/
def reservoirOk (count : Option Nat) (steps : List Step) (N : Nat) : Bool :=
  match count with
  | some 0 => true
  | none => true
  | some n => if N < n then true else resLoopOk steps (N - n) n

/-! ## The control flow of `Environments.shuffle` (seed flattening, `n=`) and `Environments.chunk`

`harness/props/c09.py::pre_build` extracts the bodies of the two methods from the CURRENT source as
small programs: one `PLine` per statement, `(depth, kind, a, b)` with kind `assign` (a = target,
b = expression), `if` (a = test), `else`, `return` (a = expression); expressions are `ast.unparse`
text.  `runShuffle` INTERPRETS such a program on a call of `shuffle`; `shuffle_program_computes_seeds`
(Props) proves that the extracted program computes `shuffleSeeds` for every call. -/

abbrev PLine := Nat × String × String × String

/-- one positional / list element handed to `shuffle`: a seed or a (one level) nested sequence of seeds -/
inductive SeedArg
  | num (v : Nat)
  | seq (vs : List Nat)
deriving DecidableEq, Repr

/-- `pipes.Flatten` on the one row: sequences among the elements are spliced in (one level) -/
def flatRow : List SeedArg → List Nat
  | [] => []
  | .num v :: r => v :: flatRow r
  | .seq vs :: r => vs ++ flatRow r

/-- the call forms of `Environments.shuffle` -/
inductive ShuffleCall
  | n (k : Nat)                  -- shuffle(n=k)
  | kwInt (v : Nat)              -- shuffle(seed=v) / shuffle(seeds=v)
  | kwRow (row : List SeedArg)   -- shuffle(seeds=[…]) / shuffle(seed=[…])
  | args (row : List SeedArg)    -- shuffle(a, b, …), shuffle() = args []
deriving DecidableEq, Repr

/-- the seeds `shuffle` builds one `Shuffle` filter for, in order (MODEL) -/
def shuffleSeeds : ShuffleCall → List Nat
  | .n k => if k = 0 then [1] else List.range k
  | .kwInt v => [v]
  | .kwRow row => if (flatRow row).isEmpty then [1] else flatRow row
  | .args row => if (flatRow row).isEmpty then [1] else flatRow row

/-- the value of the local `seeds` while the program runs -/
inductive PVal
  | int (v : Nat)
  | row (vs : List Nat)
deriving DecidableEq, Repr

def evalTest (c : ShuffleCall) (seeds : Option PVal) (t : String) : Option Bool :=
  if t = "kwargs and 'n' in kwargs" then some (match c with | .n _ => true | _ => false)
  else if t = "seeds != 0 and (not seeds)" then
    match seeds with
    | some (.row vs) => some vs.isEmpty       -- an empty sequence is falsy and `!= 0`
    | some (.int _) => some false             -- 0: `seeds != 0` fails; otherwise truthy
    | none => none
  else if t = "isinstance(seeds, int)" then
    match seeds with
    | some (.int _) => some true
    | some (.row _) => some false
    | none => none
  else none

def evalExpr (c : ShuffleCall) (seeds : Option PVal) (e : String) : Option PVal :=
  if e = "range(kwargs['n'])" then (match c with | .n k => some (.row (List.range k)) | _ => none)
  else if e = "flat(kwargs.get('seed', kwargs.get('seeds', args)))" then
    match c with
    | .kwInt v => some (.int v)
    | .kwRow r => some (.row (flatRow r))
    | .args r => some (.row (flatRow r))
    | .n _ => none
  else if e = "[1]" then some (.row [1])
  else if e = "[seeds]" then (match seeds with | some (.int v) => some (.row [v]) | _ => none)
  else none

/-- the tail every `shuffle` program must end with: one `Shuffle(seed)` per seed through `self.filter`
(environments × filters, `product_member_order`), stable sort by seed (`shuffle_member_order`) -/
def shuffleTail : List PLine := [
  (0, "assign", "shuffled", "self.filter([Shuffle(seed) for seed in seeds])"),
  (0, "assign", "ordered", "sorted(shuffled, key=lambda env: env.params.get('shuffle_seed', 0))"),
  (0, "return", "Environments(ordered)", "")]

/-- interpreter: runs the statements that compute `seeds`; at `shuffleTail` the result is `seeds` -/
def runShuffle (c : ShuffleCall) : Nat → List PLine → Option PVal → Option (List Nat)
  | 0, _, _ => none
  | fuel+1, prog, seeds =>
    if prog = shuffleTail then (match seeds with | some (.row vs) => some vs | _ => none)
    else match prog with
    | [] => none
    | (d, kind, a, b) :: rest =>
      if kind = "assign" then
        if a = "flat" then (if b = "lambda a: next(pipes.Flatten().filter([a]))" then runShuffle c fuel rest seeds else none)
        else if a = "seeds" then (match evalExpr c seeds b with | some v => runShuffle c fuel rest (some v) | none => none)
        else none
      else if kind = "if" then
        match evalTest c seeds a with
        | none => none
        | some true =>
          -- run the body (the deeper lines that follow), skip an `else` branch at this depth
          let body := rest.takeWhile (fun l => decide (d < l.1))
          let after := rest.dropWhile (fun l => decide (d < l.1))
          let after' := match after with
            | (d', k', _, _) :: r => if d' = d ∧ k' = "else" then r.dropWhile (fun l => decide (d < l.1)) else after
            | [] => []
          runShuffle c fuel (body ++ after') seeds
        | some false =>
          let after := rest.dropWhile (fun l => decide (d < l.1))
          match after with
          | (d', k', _, _) :: r => if d' = d ∧ k' = "else" then runShuffle c fuel r seeds else runShuffle c fuel after seeds
          | [] => runShuffle c fuel [] seeds
      else none

/-- the program the model assumes for `Environments.shuffle` -/
def shuffleProgram : List PLine := [
  (0, "assign", "flat", "lambda a: next(pipes.Flatten().filter([a]))"),
  (0, "if", "kwargs and 'n' in kwargs", ""),
  (1, "assign", "seeds", "range(kwargs['n'])"),
  (0, "else", "", ""),
  (1, "assign", "seeds", "flat(kwargs.get('seed', kwargs.get('seeds', args)))"),
  (0, "if", "seeds != 0 and (not seeds)", ""),
  (1, "assign", "seeds", "[1]"),
  (0, "if", "isinstance(seeds, int)", ""),
  (1, "assign", "seeds", "[seeds]")] ++ shuffleTail

/-- the filters `Environments.chunk(cache)` appends to every environment (MODEL) -/
def chunkFilters (cache : Bool) : List String := if cache then ["Chunk", "Cache"] else ["Chunk"]

/-- the program the model assumes for `Environments.chunk` -/
def chunkProgram : List PLine := [
  (0, "assign", "envs", "Environments([Pipes.join(env, Chunk()) for env in self._envs])"),
  (0, "return", "envs.cache() if cache else envs", "")]

/-- interpreter of a `chunk` program: which filters follow each environment -/
def runChunk (cache : Bool) (prog : List PLine) : Option (List String) :=
  match prog with
  | [(0, "assign", "envs", e), (0, "return", r, "")] =>
    if e = "Environments([Pipes.join(env, Chunk()) for env in self._envs])" then
      if r = "envs.cache() if cache else envs" then some (if cache then ["Chunk", "Cache"] else ["Chunk"])
      else if r = "envs" then some ["Chunk"]
      else if r = "envs.cache()" then some ["Chunk", "Cache"]
      else none
    else none
  | _ => none

/-- reads of an environment behind `chunk(cache)` -/
def chunkRun {α} (cache : Bool) (nSlice : Nat) (items : List α) (reads : List (Option Nat)) : List (List α) :=
  if cache then cacheRun nSlice items none reads else reads.map (readSpec items)

/-! ## The `Environments.<shortcut>` → filter-class(arguments) table the model assumes

`harness/props/c09.py::pre_build` extracts the same table from the CURRENT coba source into
`Generated/C09Shortcuts.lean`; `shortcuts_wired_as_modelled` proves the two equal.  A signature is
a list of `(parameter, default)` (`""` = no default, `"*"` = the keyword-only marker); an argument of
a constructor call is `(keyword, expression)` (`""` = positional) where `$p` is parameter `p` of the
shortcut and `each($p)` an element of it (one filter object per element). -/
structure ShortcutRow where
  method : String
  sig : List (String × String)
  calls : List (String × List (String × String))
deriving DecidableEq, Repr

structure CtorRow where
  cls : String
  /-- where `__init__` is defined: `environments`, `pipes.<Class>` or `none` (no constructor) -/
  src : String
  sig : List (String × String)
deriving DecidableEq, Repr

def shortcutTable : List ShortcutRow := [
  { method := "shuffle", sig := [("*args", ""), ("**kwargs", "")], calls := [("Shuffle", [("", "each($seeds)")])] },
  { method := "sort", sig := [("*keys", "")], calls := [("Sort", [("", "*$keys")])] },
  { method := "riffle", sig := [("spacing", ""), ("seed", "1")], calls := [("Riffle", [("", "$spacing"), ("", "$seed")])] },
  { method := "params", sig := [("params", "")], calls := [("Params", [("", "$params")])] },
  { method := "take", sig := [("n_interactions", ""), ("strict", "False")], calls := [("Take", [("", "$n_interactions"), ("", "$strict")])] },
  { method := "slice", sig := [("start", ""), ("stop", "None"), ("step", "1")], calls := [("Slice", [("", "$start"), ("", "$stop"), ("", "$step")])] },
  { method := "reservoir", sig := [("n_interactions", ""), ("seeds", "1"), ("strict", "False")], calls := [("Reservoir", [("", "$n_interactions"), ("strict", "$strict"), ("seed", "each($seeds)")])] },
  { method := "where", sig := [("*", ""), ("n_interactions", "None"), ("n_actions", "None"), ("n_features", "None")], calls := [("Where", [("n_interactions", "$n_interactions"), ("n_actions", "$n_actions"), ("n_features", "$n_features")])] },
  { method := "batch", sig := [("batch_size", ""), ("batch_type", "'list'")], calls := [("Batch", [("", "$batch_size"), ("", "$batch_type")])] },
  { method := "chunk", sig := [("cache", "True")], calls := [("Chunk", [])] },
  { method := "unbatch", sig := [], calls := [("Unbatch", [])] },
  { method := "cache", sig := [], calls := [("Cache", [("", "25")])] }]

def ctorTable : List CtorRow := [
  { cls := "Shuffle", src := "pipes.Shuffle", sig := [("seed", "")] },
  { cls := "Sort", src := "environments", sig := [("*keys", "")] },
  { cls := "Riffle", src := "environments", sig := [("spacing", "3"), ("seed", "1")] },
  { cls := "Params", src := "environments", sig := [("params", "")] },
  { cls := "Take", src := "pipes.Take", sig := [("count", ""), ("strict", "False")] },
  { cls := "Slice", src := "pipes.Slice", sig := [("start", ""), ("stop", ""), ("step", "1")] },
  { cls := "Reservoir", src := "pipes.Reservoir", sig := [("count", ""), ("strict", "False"), ("seed", "1")] },
  { cls := "Where", src := "environments", sig := [("*", ""), ("n_interactions", "None"), ("n_actions", "None"), ("n_features", "None")] },
  { cls := "Batch", src := "environments", sig := [("batch_size", ""), ("batch_type", "'list'")] },
  { cls := "Unbatch", src := "none", sig := [] },
  { cls := "Chunk", src := "none", sig := [] },
  { cls := "Cache", src := "pipes.Cache", sig := [("n_slice", "25"), ("protected", "False")] },
  { cls := "Identity", src := "none", sig := [] }]

/-- the expression of shortcut `m` that reaches constructor parameter `p` of filter class `cls`
(keyword arguments by name, positional ones by the position of `p` in the constructor's signature) -/
def feeds (shortcuts : List ShortcutRow) (ctors : List CtorRow) (m cls p : String) : Option String :=
  match shortcuts.find? (fun r => r.method == m), ctors.find? (fun r => r.cls == cls) with
  | some r, some c =>
    match r.calls.find? (fun k => k.1 == cls) with
    | none => none
    | some call =>
      match call.2.find? (fun a => a.1 == p) with
      | some a => some a.2
      | none =>
        let names := (c.sig.map (·.1)).filter (fun n => n != "*")
        ((((call.2.filter (fun a => a.1 == "")).map (·.2)).zip names).find? (fun q => q.2 == p)).map (·.1)
  | _, _ => none

/-! # Phase 6 — pipelines of several filters: `FiltersFilter.filter` / `SourceFilters.read`
(`for f in self._filters: items = f.filter(items)`), the flattening of nested `Pipes.join`s in their
constructors (`sum((try_else(lambda: list(p),[p]) for p in pipes),[])`), and the filter of every kind
as ONE datatype `FOp`, so that a theorem can quantify over every pipeline of C09 filters. -/

/-- one pipeline run: the result of each filter is handed to the next; the first exception ends it -/
def chainF {α : Type} : List (List α → Except Err (List α)) → List α → Except Err (List α)
  | [], xs => .ok xs
  | f :: fs, xs =>
    match f xs with
    | .ok ys => chainF fs ys
    | .error e => .error e

/-- what is handed to `Pipes.join`: a filter object, or a pipe that was itself built by `Pipes.join` -/
inductive Pipe (α : Type) where
  | one (f : List α → Except Err (List α))
  | joined (ps : List (Pipe α))

mutual
/-- `_filters` of the joined pipe: the constructor splices the filter lists of already joined arguments -/
def Pipe.filters {α : Type} : Pipe α → List (List α → Except Err (List α))
  | .one f => [f]
  | .joined ps => Pipe.filtersL ps
def Pipe.filtersL {α : Type} : List (Pipe α) → List (List α → Except Err (List α))
  | [] => []
  | p :: ps => p.filters ++ Pipe.filtersL ps
end

/-- the code: run the flat list -/
def Pipe.runFlat {α : Type} (p : Pipe α) (xs : List α) : Except Err (List α) := chainF p.filters xs

mutual
/-- the meaning of a nested join (spec): every argument is applied as a unit, left to right -/
def Pipe.run {α : Type} : Pipe α → List α → Except Err (List α)
  | .one f, xs => f xs
  | .joined ps, xs => Pipe.runL ps xs
def Pipe.runL {α : Type} : List (Pipe α) → List α → Except Err (List α)
  | [], xs => .ok xs
  | p :: ps, xs =>
    match p.run xs with
    | .ok ys => Pipe.runL ps ys
    | .error e => .error e
end

/-- the attributes of an interaction the filters read -/
structure Acc (α : Type) where
  isLogged : α → Bool
  hasCtx : α → Bool
  ctx : α → Ctx
  nAct : α → Nat

/-- a C09 filter with its parameters -/
inductive FOp where
  | take (count : Option Nat) (strict : Bool)
  | slice (start stop : Option Nat) (step : Nat)
  | pshuffle (sd : Seed)
  | eshuffle (sd lsd : Seed)
  | riffle (spacing : Nat) (sd : Seed)
  | sort (keys : List Val)
  | whereOp (nInt nAct nFet : Range)
  | reservoir (count : Option Nat) (strict : Bool) (sd : Seed)
  | identity

/-- the modelled filter function of an `FOp` (`nT` = number of uniform triples the reservoir loop may use) -/
def FOp.run {R α : Type} (ops : FloatOps R) (A : Acc α) (nT : Nat) : FOp → List α → Except Err (List α)
  | .take c strict, xs => .ok (Coba.C09.take c strict xs)
  | .slice a b st, xs => .ok (Coba.C09.slice a b st xs)
  | .pshuffle sd, xs => .ok (shuffleSeeded sd xs)
  | .eshuffle sd lsd, xs => .ok (eShuffleSeeded A.isLogged sd lsd xs)
  | .riffle sp sd, xs => .ok (riffleSeeded sp sd xs)
  | .sort keys, xs => sortF A.hasCtx A.ctx keys xs
  | .whereOp ni na nf, xs => .ok (whereF (fun a => ctxLen (A.ctx a)) A.nAct ni na nf xs)
  | .reservoir c strict sd, xs => reservoirF ops c strict sd.norm (xs.length + nT) xs
  | .identity, xs => .ok (identityF xs)

/-- a pipeline of C09 filters -/
def pipeline {R α : Type} (ops : FloatOps R) (A : Acc α) (nT : Nat) (fs : List FOp) : List α → Except Err (List α) :=
  chainF (fs.map (FOp.run ops A nT))

/-- the filter keeps no interaction it was not given and never reorders (Take, Slice, Where, Identity) -/
def FOp.selecting : FOp → Bool
  | .take _ _ | .slice _ _ _ | .whereOp _ _ _ | .identity => true
  | _ => false

/-- the filter only rearranges (Shuffle, Riffle, Sort, Identity) -/
def FOp.ordering : FOp → Bool
  | .pshuffle _ | .eshuffle _ _ | .riffle _ _ | .sort _ | .identity => true
  | _ => false

/-! ## Phase 6: the statements of the pipeline-running methods, as extracted programs (`PLine`, with `for` lines:
`(depth, "for", loop variable, iterated expression)` followed by the body one level deeper) and an interpreter -/

/-- `FiltersFilter.__init__` / `SourceFilters.__init__`: the splice of already joined arguments (meaning: `Pipe.filtersL`) -/
def joinInitProgram (target : String) : List PLine :=
  [(0, "assign", target, "sum((try_else(lambda: list(p), [p]) for p in pipes), [])")]

def filtersFilterProgram : List PLine := [
  (0, "for", "filter", "self._filters"),
  (1, "assign", "items", "filter.filter(items)"),
  (0, "return", "items", "")]

def sourceReadProgram : List PLine := [
  (0, "assign", "item", "self._pipes[0].read()"),
  (0, "for", "filter", "self._pipes[1:]"),
  (1, "assign", "item", "filter.filter(item)"),
  (0, "return", "item", "")]

/-- `Environments.filter`: one pipeline per (environment, filter) pair, environments outermost (meaning: `productMembers`) -/
def envFilterProgram : List PLine := [
  (0, "assign", "filters", "filter if isinstance(filter, collections.abc.Sequence) else [filter]"),
  (0, "return", "Environments([Pipes.join(env, f) for env in self._envs for f in filters])", "")]

/-- which filters a loop of such a method walks: all of a `FiltersFilter`, everything after the source of a `SourceFilters` -/
def loopFilters {α : Type} (fs : List (List α → Except Err (List α))) (expr : String) : Option (List (List α → Except Err (List α))) :=
  if expr == "self._filters" || expr == "self._pipes[1:]" then some fs else none

/-- interpreter of a pipeline-running method body.  `vars`: the data variables and what they hold (the method's
argument, later the running result); `input` is what the source delivers / the argument of `filter`.
`x = self._pipes[0].read()` binds `x`; `for f in <filters>:` followed by `x = f.filter(x)` runs the filters on `x`,
stopping at the first exception; `return x` ends.  Anything else: `none`. -/
def runPipeProgram {α : Type} (fs : List (List α → Except Err (List α))) (input : List α) :
    List PLine → List (String × Except Err (List α)) → Option (Except Err (List α))
  | (0, "assign", x, "self._pipes[0].read()") :: rest, vars => runPipeProgram fs input rest ((x, .ok input) :: vars)
  | (0, "for", f, l) :: (1, "assign", x, e) :: rest, vars =>
    if e == f ++ ".filter(" ++ x ++ ")" then
      match loopFilters fs l, vars.lookup x with
      | some gs, some (.ok v) => runPipeProgram fs input rest ((x, chainF gs v) :: vars)
      | some _, some (.error err) => runPipeProgram fs input rest ((x, .error err) :: vars)
      | _, _ => none
    else none
  | [(0, "return", x, "")], vars => vars.lookup x
  | _, _ => none

end Coba.C09
