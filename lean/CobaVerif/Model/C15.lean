/-
Model of `coba/safety.py` (class `SafeLearner`: predict, learn, _safe_call, _parse_pred and the static
helpers batch_order / has_kwargs / first_row / pred_format / possible_pmf / possible_action).
Import-free apart from the finished C05 model (`CobaRandom.choicew`).

Python values are `PyVal`s.  Objects that have an identity worth talking about (floats, strings,
tuples, lists, dicts) carry a `Ref` saying who created the object: the environment (`ext`: offered
actions, contexts), `SafeLearner.predict` (`safe`: the float copies of 0/1 actions), the learner
(`lrn`: everything a learner builds to answer) or SafeLearner's own temporaries (`tmp`).  `is` is
`pyIs`.  Ints, bools and None are compared by value by `is` (CPython interns the small ints the
checks generate; `True is 1` is False).

`Fixes` selects between the code as it stands at the pinned commit (all flags false) and the code
with the proposed repairs `fixes/C15-*.diff` applied (flag true); every other line is common.
-/
import CobaVerif.Model.C05

namespace Coba.C15

inductive Ref
  | ext (n : Nat) | safe (n : Nat) | lrn (n : Nat) | tmp
deriving DecidableEq, Repr

inductive PyVal where
  | none : PyVal
  | bool (b : Bool)
  | int (i : Int)
  | flt (r : Ref) (q : Rat)
  | str (r : Ref) (s : String)
  | tuple (r : Ref) (xs : List PyVal)
  | list (r : Ref) (xs : List PyVal)
  | dict (r : Ref) (ks : List String) (vs : List PyVal)
deriving Repr

inductive Err
  | coba | key | index | type | attr | value | stopIter | zeroDiv | learner | other
deriving DecidableEq, Repr

structure Fixes where
  /-- fixes/C15-pred-format-short-answers.diff -/
  short : Bool
  /-- fixes/C15-batched-float-copies.diff -/
  batch : Bool
  /-- fixes/C15-colmajor-parse.diff -/
  col : Bool
  /-- fixes/C15-sparse-rows-not-colkw.diff -/
  rowdict : Bool
deriving DecidableEq, Repr

def Fixes.all : Fixes := ⟨true, true, true, true⟩
def Fixes.none : Fixes := ⟨false, false, false, false⟩

namespace PyVal

def isDict : PyVal → Bool | .dict .. => true | _ => false
def isStr : PyVal → Bool | .str .. => true | _ => false
/-- `hasattr(v,'__len__')` -/
def hasLen : PyVal → Bool | .str .. | .tuple .. | .list .. | .dict .. => true | _ => false
def len : PyVal → Nat
  | .str _ s => s.length | .tuple _ xs => xs.length | .list _ xs => xs.length | .dict _ ks _ => ks.length
  | _ => 0
/-- elements of a tuple / list -/
def items : PyVal → Option (List PyVal)
  | .tuple _ xs => some xs | .list _ xs => some xs | _ => Option.none
/-- numeric value of bool / int / float -/
def num : PyVal → Option Rat
  | .bool b => some (if b then 1 else 0) | .int i => some (i : Rat) | .flt _ q => some q | _ => Option.none

end PyVal

open PyVal

/-- Python `is` -/
def pyIs : PyVal → PyVal → Bool
  | .none, .none => true
  | .bool a, .bool b => a == b
  | .int a, .int b => a == b
  | .flt r _, .flt r' _ => r == r'
  | .str r _, .str r' _ => r == r'
  | .tuple r _, .tuple r' _ => r == r'
  | .list r _, .list r' _ => r == r'
  | .dict r _ _, .dict r' _ _ => r == r'
  | _, _ => false

def lookupKey (k : String) : List String → List PyVal → Option PyVal
  | k' :: ks, v :: vs => if k = k' then some v else lookupKey k ks vs
  | _, _ => Option.none

/- Python `==` on the value domain (numbers compare numerically across bool/int/float, a tuple never
equals a list, dicts compare as mappings) -/
mutual
def pyEq : PyVal → PyVal → Bool
  | .none, .none => true
  | .str _ a, .str _ b => a == b
  | .tuple _ xs, .tuple _ ys => pyEqList xs ys
  | .list _ xs, .list _ ys => pyEqList xs ys
  | .dict _ ks vs, .dict _ ks' vs' => ks.length == ks'.length && pyEqDict ks vs ks' vs'
  | .bool a, y => match y.num with | some q => (if a then (1 : Rat) else 0) == q | Option.none => false
  | .int a, y => match y.num with | some q => (a : Rat) == q | Option.none => false
  | .flt _ a, y => match y.num with | some q => a == q | Option.none => false
  | _, _ => false
def pyEqList : List PyVal → List PyVal → Bool
  | [], [] => true
  | x :: xs, y :: ys => pyEq x y && pyEqList xs ys
  | _, _ => false
def pyEqDict : List String → List PyVal → List String → List PyVal → Bool
  | k :: ks, v :: vs, ks', vs' =>
    (match lookupKey k ks' vs' with | some v' => pyEq v v' | Option.none => false) && pyEqDict ks vs ks' vs'
  | _, _, _, _ => true
end

/-- `v[k]` for an index k ≥ 0 -/
def getIdx (v : PyVal) (k : Nat) : Except Err PyVal :=
  match v with
  | .tuple _ xs | .list _ xs => match xs[k]? with | some x => .ok x | Option.none => .error .index
  | .str _ s => match s.toList[k]? with | some c => .ok (.str .tmp (String.singleton c)) | Option.none => .error .index
  | .dict .. => .error .key            -- only string keys are modelled; an int key is never present
  | _ => .error .type

/-- `v[-1]` -/
def getLast (v : PyVal) : Except Err PyVal :=
  match v with
  | .tuple _ xs | .list _ xs => match xs.getLast? with | some x => .ok x | Option.none => .error .index
  | .str _ s => match s.toList.getLast? with | some c => .ok (.str .tmp (String.singleton c)) | Option.none => .error .index
  | .dict .. => .error .key
  | _ => .error .type

/-- `v[:-1]` -/
def dropLast (v : PyVal) : Except Err PyVal :=
  match v with
  | .tuple _ xs => .ok (.tuple .tmp xs.dropLast)
  | .list _ xs => .ok (.list .tmp xs.dropLast)
  | .str _ s => .ok (.str .tmp (String.ofList s.toList.dropLast))
  | .dict .. => .error .key            -- slices are hashable in 3.12: KeyError
  | _ => .error .type

/-- iteration `for p in v` -/
def iter (v : PyVal) : Except Err (List PyVal) :=
  match v with
  | .tuple _ xs | .list _ xs => .ok xs
  | .dict _ ks _ => .ok (ks.map (fun k => .str .tmp k))
  | .str _ s => .ok (s.toList.map (fun c => .str .tmp (String.singleton c)))
  | _ => .error .type

def lenE (v : PyVal) : Except Err Nat := if v.hasLen then .ok v.len else .error .type

/-- `a.keys() == b.keys()` -/
def keysEq (a b : PyVal) : Except Err Bool :=
  match a, b with
  | .dict _ ks _, .dict _ ks' _ => .ok (ks.all (ks'.contains ·) && ks'.all (ks.contains ·))
  | _, _ => .error .attr

/-- `list(d.values())[0]` -/
def firstValue (v : PyVal) : Except Err PyVal :=
  match v with
  | .dict _ _ (x :: _) => .ok x
  | .dict _ _ [] => .error .index
  | _ => .error .attr

/-! ### the float copies of 0/1 actions (`SafeLearner.predict`) -/

/-- `a in [0,1]` -/
def isZeroOne (v : PyVal) : Bool :=
  match v.num with | some q => q == 0 || q == 1 | Option.none => false

/-- `float(a) if a in [0,1] else a`; `float(x)` of a float is `x` itself -/
def makeSafe (k : Nat) : PyVal → PyVal
  | .bool b => .flt (.safe k) (if b then 1 else 0)
  | .int i => if i = 0 ∨ i = 1 then .flt (.safe k) (i : Rat) else .int i
  | v => v

def mapIdxFrom {α β} (f : Nat → α → β) : Nat → List α → List β
  | _, [] => []
  | i, x :: xs => f i x :: mapIdxFrom f (i + 1) xs

/-- one list of actions: unchanged (the same objects) unless 0 or 1 is among them -/
def safeRow (r : Nat) (as : List PyVal) : List PyVal :=
  if as.any isZeroOne then mapIdxFrom (fun j a => makeSafe (r * 4096 + j) a) 0 as else as

/-- the `actions` argument of predict -/
inductive Acts
  | single (as : List PyVal)
  | batch (rows : List (List PyVal))
deriving Repr

def Acts.toPy : Acts → PyVal
  | .single as => .list .tmp as
  | .batch rows => .list .tmp (rows.map (fun r => .list .tmp r))

/-- at the pinned commit a batch of action lists is tested with `0 not in actions`, which compares 0 with
whole rows and so never substitutes anything -/
def safeActs (fx : Fixes) : Acts → Acts
  | .single as => .single (safeRow 0 as)
  | .batch rows => if fx.batch then .batch (mapIdxFrom safeRow 0 rows) else .batch rows

/-! ### learners -/

inductive Arg
  | single (ctx : PyVal) (actions : List PyVal)
  | batch (ctxs : List PyVal) (actions : List (List PyVal))
deriving Repr

/-- a learner's `predict`: a function of what it is given; `.error` = it raised -/
abbrev Learner := Arg → Except Err PyVal

inductive BLayout | not | row | col
deriving DecidableEq, Repr

inductive Kind | AX | AP | PM
deriving DecidableEq, Repr

/-- `_pred_format`: kind + the trailing `*` of the dict-hinted forms -/
structure PFmt where
  kind : Kind
  star : Bool
deriving DecidableEq, Repr

structure State where
  rng : Nat
  method : Option Nat := Option.none
  layout : Option BLayout := Option.none
  hasKw : Bool := false
  fmt : Option PFmt := Option.none
  prev : Option Acts := Option.none
  safe : Acts := .single []
deriving Repr

/-! ### `_safe_call` -/

def lenOr0 (v : PyVal) : Nat := v.len

/-- `any(k in item for k in ['action','action_prob','pmf'])` -/
def isHint : PyVal → Bool
  | .dict _ ks _ => ks.contains "action" || ks.contains "action_prob" || ks.contains "pmf"
  | _ => false

/-- `raise_if_not_valid_out(out, n)` does not raise (any exception inside it counts as invalid) -/
def validOut (fx : Fixes) (out : PyVal) (n : Nat) : Bool :=
  match out with
  | .none => false
  | .dict _ _ vs => match vs with | v :: _ => n == lenOr0 v | [] => false
  | .tuple _ xs | .list _ xs =>
    match xs, xs.getLast? with
    | x :: _, some l =>
      if xs.all PyVal.isDict then
        match keysEq x l with
        | .ok true => n == xs.length || n == lenOr0 x
        | .ok false =>
          if fx.rowdict && !isHint x then n == xs.length || n == lenOr0 x
          else (match x with | .dict _ _ (v :: _) => n == lenOr0 v | _ => false)
        | .error _ => false
      else n == xs.length || n == lenOr0 x
    | _, _ => false
  | .str _ s => if s.isEmpty then false else n == s.length || n == 1
  | _ => false

/-- `_method2`: one call per row -/
def perRow (L : Learner) : List PyVal → List (List PyVal) → Except Err (List PyVal)
  | c :: cs, a :: as => do
    let p ← L (.single c a)
    let ps ← perRow L cs as
    pure (p :: ps)
  | _, _ => pure []

def perRowArgs : List PyVal → List (List PyVal) → List Arg
  | c :: cs, a :: as => .single c a :: perRowArgs cs as
  | _, _ => []

def method2 (L : Learner) (ctxs : List PyVal) (rows : List (List PyVal)) : Except Err PyVal := do
  let ps ← perRow L ctxs rows
  if ps.isEmpty then .error .coba else pure (.list .tmp ps)

/-- `_safe_call('predict', …)`: the answer, the memoised method afterwards, and the calls made to the learner -/
def safeCall (fx : Fixes) (L : Learner) (method : Option Nat) (arg : Arg) : Except Err (PyVal × Nat) :=
  match arg with
  | .single .. =>
    match method with
    | some 2 => .error .other           -- a per-row memo with an unbatched call: not modelled (never mixed)
    | _ => do let p ← L arg; pure (p, 1)
  | .batch ctxs rows =>
    match method with
    | some 1 => do let p ← L arg; pure (p, 1)
    | some _ => do let p ← method2 L ctxs rows; pure (p, 2)
    | Option.none =>
      let n := ctxs.length
      match L arg with
      | .ok out =>
        if validOut fx out n then .ok (out, 1)
        else match method2 L ctxs rows with
          | .ok out2 => if validOut fx out2 n then .ok (out2, 2) else .error .coba
          | .error e => .error e
      | .error _ =>
        match method2 L ctxs rows with
        | .ok out2 => if validOut fx out2 n then .ok (out2, 2) else .error .coba
        | .error e => .error e

/-- the calls `_safe_call` makes to the learner (for "once per row") -/
def safeCallTrace (fx : Fixes) (L : Learner) (method : Option Nat) (arg : Arg) : List Arg :=
  match arg with
  | .single .. =>
    match method with
    | some 2 => []       -- `_method2` zips an unbatched (context, actions): a scalar context raises before any call (not modelled further)
    | _ => [arg]
  | .batch ctxs rows =>
    match method with
    | some 1 => [arg]
    | some _ => perRowArgs ctxs rows
    | Option.none =>
      match L arg with
      | .ok out => if validOut fx out ctxs.length then [arg] else arg :: perRowArgs ctxs rows
      | .error _ => arg :: perRowArgs ctxs rows

/-! ### layout and format detection (first call only) -/

def allDicts (v : PyVal) : Except Err Bool := do
  let xs ← iter v
  pure (xs.all PyVal.isDict)

def isBatchArg : Arg → Bool | .batch .. => true | _ => false

def firstOf : Arg → Except Err Arg
  | .batch (c :: _) (a :: _) => .ok (.batch [c] [a])
  | _ => .error .index

/-- `batch_order` up to the point where the one-row test call is needed: `some layout` = decided without it -/
def batchOrderPre (fx : Fixes) (pred : PyVal) (arg : Arg) (method : Nat) : Except Err (Option BLayout) :=
  if method = 2 then .ok (some .row)
  else match arg with
  | .single .. => .ok (some .not)
  | .batch _ rows => do
    let allD ← allDicts pred
    let isDictCol := pred.isDict
    let isDictColKw ← (if allD then do
        let a ← getIdx pred 0; let b ← getLast pred
        let e ← keysEq a b
        pure (!e && pred.len == 2 && (!fx.rowdict || isHint a)) else pure false)
    let isDictRow ← (if allD then do
        let a ← getIdx pred 0; let b ← getLast pred
        keysEq a b else pure false)
    if isDictCol || isDictColKw then pure (some .col)
    else if isDictRow then pure (some .row)
    else
      let p0 ← getIdx pred 0
      if !p0.hasLen then pure (some .row)
      else
        let nRows := rows.length
        let d1 ← lenE pred
        let d2 ← lenE p0
        if d1 = d2 then pure Option.none
        else pure (some (if d1 = nRows then .row else .col))

/-- `batch_order`; `probe` is the predictor's answer to the one-row test call of the square case -/
def batchOrder (fx : Fixes) (probe : Except Err PyVal) (pred : PyVal) (arg : Arg) (method : Nat) : Except Err BLayout := do
  match ← batchOrderPre fx pred arg method with
  | some lay => pure lay
  | Option.none =>
    let pp ← probe
    let l ← lenE pp
    pure (if l = 1 then .row else .col)

/-- is the square-case test call made? (for the call trace) -/
def probeMade (fx : Fixes) (pred : PyVal) (arg : Arg) (method : Nat) : Bool :=
  match batchOrderPre fx pred arg method with
  | .ok Option.none => true
  | _ => false

/-- `has_kwargs` -/
def hasKwargs (pred : PyVal) (lay : BLayout) : Bool :=
  let last := match lay with
    | .row => (do let r ← getIdx pred 0; getLast r)
    | _ => getLast pred
  match last with | .ok v => v.isDict | .error _ => false

def firstOfEach : List PyVal → Except Err (List PyVal)
  | [] => pure []
  | p :: ps => do let x ← getIdx p 0; let xs ← firstOfEach ps; pure (x :: xs)

/-- `first_row` -/
def firstRow (pred : PyVal) (lay : BLayout) (kw : Bool) : Except Err PyVal :=
  match lay with
  | .col => do
    let p0 ← (if kw then getIdx pred 0 else pure .none)
    let pred := if kw && p0.isDict then p0 else pred
    match pred with
    | .dict _ ks vs => do
      let vs' ← firstOfEach vs
      pure (.dict .tmp ks vs')
    | _ => do
      let body ← (if kw then dropLast pred else pure pred)
      let cols ← iter body
      let row ← firstOfEach cols
      match row with
      | [x] => pure x
      | _ => pure (.list .tmp row)
  | _ => do
    let pred ← (if lay = .row then getIdx pred 0 else pure pred)
    if kw then do
      let n ← lenE pred
      if n = 2 then getIdx pred 0 else dropLast pred
    else pure pred

def hasKey (k : String) : PyVal → Bool
  | .dict _ ks _ => ks.contains k
  | _ => false

def getKey (k : String) : PyVal → Except Err PyVal
  | .dict _ ks vs => match lookupKey k ks vs with | some v => .ok v | Option.none => .error .key
  | _ => .error .type

def sumNums : List PyVal → Option Rat
  | [] => some 0
  | x :: xs => match x.num, sumNums xs with | some a, some b => some (a + b) | _, _ => Option.none

/-- `possible_pmf`: `isclose(sum(item), 1, abs_tol=.001)` is modelled exactly as |sum-1| ≤ 1/1000 (the
generated sums are exactly 1 or far from it) -/
def possiblePmf (item : PyVal) (actions : List PyVal) : Bool :=
  match item.items with
  | some xs =>
    xs.length == actions.length &&
      (match sumNums xs with
       | some s => decide (s - 1 ≤ 1/1000 ∧ 1 - s ≤ 1/1000) && xs.all (fun x => match x.num with | some q => decide (0 ≤ q) | Option.none => false)
       | Option.none => false)
  | Option.none => false

/-- `possible_action`: `item in actions or len(actions) == 0` -/
def possibleAction (item : PyVal) (actions : List PyVal) : Bool :=
  actions.any (fun a => pyIs item a || pyEq item a) || actions.isEmpty

/-- `pred_format(std_pred, actions)`; `actions = none` is Python's `None` -/
def predFormat (fx : Fixes) (sp : PyVal) (actions : Option (List PyVal)) : Except Err PFmt :=
  let acts := actions.getD []
  let hinted : Option (Except Err PFmt) :=
    if sp.isDict then
      if hasKey "pmf" sp then some (do
        let pmf ← getKey "pmf" sp
        if acts.isEmpty then .error .coba
        else if !pmf.hasLen || pmf.len != acts.length then .error .coba
        else pure ⟨.PM, true⟩)
      else if hasKey "action" sp then some (pure ⟨.AX, true⟩)
      else if hasKey "action_prob" sp then some (do
        let ap ← getKey "action_prob" sp
        if !ap.hasLen || ap.len != 2 then .error .coba else pure ⟨.AP, true⟩)
      else Option.none
    else Option.none
  match hinted with
  | some r => r
  | Option.none => do
    -- `two = some x`: a two-item answer whose first item x IS one of the actions: [action, prob]
    let two : Bool ←
      (if !sp.hasLen || sp.isStr || (fx.short && sp.isDict) then pure false
       else if (if fx.short then sp.len != 2 else sp.len > 2) then pure false
       else if sp.len = 2 then do
         if acts.isEmpty then .error .coba
         else do
           let x ← getIdx sp 0
           pure (acts.any (fun a => pyIs x a))
       else pure false)
    -- legacy: an answer with a length of 0 or 1 is taken to be `[pmf]`/`[action]` already
    let unwrapped : Bool := !fx.short && sp.hasLen && !sp.isStr && sp.len < 2
    if two then pure ⟨.AP, false⟩
    else if unwrapped && sp.len = 2 then pure ⟨.AP, false⟩   -- (never: len < 2)
    else do
      if acts.isEmpty then pure ⟨.AX, false⟩
      else do
        let item ← (if unwrapped then getIdx sp 0 else pure sp)
        if acts.any (fun a => pyIs item a) then pure ⟨.AX, false⟩
        else if possiblePmf item acts then pure ⟨.PM, false⟩
        else if possibleAction item acts then pure ⟨.AX, false⟩
        else .error .coba

/-! ### `_parse_pred` -/

/-- what predict returns: `(action, prob, kwargs)` (batched: sequences / a dict of sequences) -/
structure Result where
  a : PyVal
  p : PyVal
  kw : PyVal
deriving Repr

def toRats : List PyVal → Option (List Rat)
  | [] => some []
  | x :: xs => match x.num, toRats xs with | some a, some b => some (a :: b) | _, _ => Option.none

def c05Err : Coba.C05.Err → Err
  | .valueError => .value | .indexError => .index | .stopIteration => .stopIter | .zeroDivision => .zeroDiv

/-- `self._rng.choicew(actions, pmf)` -/
def choicew (s : Nat) (actions : List PyVal) (pmf : PyVal) : Except Err (Nat × PyVal × PyVal) :=
  match pmf with
  | .none =>
    match Coba.C05.choicew s actions.length Option.none with
    | .ok (s', i, _) => (match actions[i]? with | some a => .ok (s', a, .flt .tmp (1 / (actions.length : Rat))) | Option.none => .error .index)
    | .error e => .error (c05Err e)
  | _ =>
    match pmf.items with
    | Option.none => .error .type
    | some ws =>
      if ws ≠ [] ∧ ws.length ≠ actions.length then .error .value
      else match toRats ws with
        | Option.none => .error .type
        | some qs =>
          match Coba.C05.choicew s actions.length (some qs) with
          | .ok (s', i, _) =>
            (match actions[i]?, ws[i]? with
             | some a, some w => .ok (s', a, w)
             | _, _ => .error .index)
          | .error e => .error (c05Err e)

/-- `map(self._rng.choicew, actions, pred)` -/
def choicewRows : Nat → List (List PyVal) → List PyVal → Except Err (Nat × List PyVal × List PyVal)
  | s, as :: rows, p :: ps => do
    let (s1, a, w) ← choicew s as p
    let (s2, A, P) ← choicewRows s1 rows ps
    pure (s2, a :: A, w :: P)
  | s, _, _ => pure (s, [], [])

/-- `zip(*rows)` (truncating to the shortest row) -/
def heads : List (List PyVal) → Option (List PyVal)
  | [] => some []
  | (x :: _) :: rs => (heads rs).map (x :: ·)
  | [] :: _ => Option.none

def tails : List (List PyVal) → List (List PyVal)
  | [] => []
  | (_ :: t) :: rs => t :: tails rs
  | [] :: rs => [] :: tails rs

def zipStarAux : Nat → List (List PyVal) → List (List PyVal)
  | 0, _ => []
  | fuel + 1, rows =>
    match rows with
    | [] => []
    | _ => match heads rows with
      | some h => h :: zipStarAux fuel (tails rows)
      | Option.none => []

def zipStar (rows : List (List PyVal)) : List (List PyVal) :=
  match rows with
  | [] => []
  | r :: _ => zipStarAux r.length rows

def itemsE (v : PyVal) : Except Err (List PyVal) := iter v

def mapE {α β} (f : α → Except Err β) : List α → Except Err (List β)
  | [] => pure []
  | x :: xs => do let y ← f x; let ys ← mapE f xs; pure (y :: ys)

/-- `A,P = zip(*pred)` -/
def unzipPairs (rows : List PyVal) : Except Err (PyVal × PyVal) := do
  let rs ← mapE itemsE rows
  match zipStar rs with
  | [a, p] => pure (.tuple .tmp a, .tuple .tmp p)
  | _ => .error .value

/-- `{k: [kw[k] for kw in kwargs] for k in kwargs[0]}` -/
def kwColumns (kws : List PyVal) : Except Err PyVal :=
  match kws with
  | [] => .error .index
  | k0 :: _ =>
    match k0 with
    | .dict _ ks _ => do
      let cols ← mapE (fun k => do let col ← mapE (getKey k) kws; pure (PyVal.list .tmp col)) ks
      pure (.dict .tmp ks cols)
    | _ => .error .type

def noneList (n : Nat) : PyVal := .list .tmp (List.replicate n .none)

def rowBody (p : PyVal) : Except Err PyVal := do
  let n ← lenE p
  if n = 2 then getIdx p 0 else dropLast p

def parseNot (st : State) (f : PFmt) (actions : List PyVal) (pred : PyVal) : Except Err (Result × Nat) := do
  let kwargs ← (if st.hasKw then getLast pred else pure (.dict .tmp [] []))
  let pred ← (if st.hasKw then do let n ← lenE pred; if n = 2 then getIdx pred 0 else pure pred else pure pred)
  let pred ← (if f.star then firstValue pred else pure pred)
  match f.kind with
  | .PM => do
    let (s', a, p) ← choicew st.rng actions pred
    pure (⟨a, p, kwargs⟩, s')
  | .AP => do
    let xs ← (match pred with        -- `a,p = pred[:2]`
      | .tuple _ xs | .list _ xs => pure xs
      | .str .. => itemsE pred
      | .dict .. => .error .key
      | _ => .error .type)
    match xs.take 2 with
    | [a, p] => pure (⟨a, p, kwargs⟩, st.rng)
    | _ => .error .value
  | .AX => pure (⟨pred, .none, kwargs⟩, st.rng)

/-- the last step of the row-major branch: `body` holds one answer per row without kwargs and hint (`bodyV` is the
Python object holding them) -/
def finishRows (s : Nat) (k : Kind) (rows : List (List PyVal)) (body : List PyVal) (bodyV kwargs : PyVal) :
    Except Err (Result × Nat) :=
  match k with
  | .PM => do
    let (s', A, P) ← choicewRows s rows body
    if A.isEmpty then .error .value else pure (⟨.list .tmp A, .list .tmp P, kwargs⟩, s')
  | .AX => pure (⟨bodyV, noneList body.length, kwargs⟩, s)
  | .AP => do
    let (A, P) ← unzipPairs body
    pure (⟨A, P, kwargs⟩, s)

def parseRow (st : State) (f : PFmt) (rows : List (List PyVal)) (pred : PyVal) : Except Err (Result × Nat) := do
  let ps ← itemsE pred
  let kws ← (if st.hasKw then mapE (fun p => getLast p) ps else pure (ps.map (fun _ => PyVal.dict .tmp [] [])))
  let kwargs ← kwColumns kws
  let (body, bodyV) ← (if st.hasKw then do let b ← mapE rowBody ps; pure (b, PyVal.list .tmp b) else pure (ps, pred))
  let (body, bodyV) ← (if f.star then do let b ← mapE firstValue body; pure (b, PyVal.list .tmp b) else pure (body, bodyV))
  finishRows st.rng f.kind rows body bodyV kwargs

def parseCol (fx : Fixes) (st : State) (f : PFmt) (rows : List (List PyVal)) (pred : PyVal) : Except Err (Result × Nat) := do
  let kwargs ← (if st.hasKw then getLast pred else pure (.dict .tmp [] []))
  let pred ← (if st.hasKw then dropLast pred else pure pred)
  let pred ← (if f.star then do
      let d ← (if fx.col && !pred.isDict then getIdx pred 0 else pure pred)
      firstValue d
    else if fx.col && f.kind = .PM then do
      let cols ← itemsE pred
      let cs ← mapE itemsE cols
      pure (.list .tmp ((zipStar cs).map (fun r => PyVal.tuple .tmp r)))
    else if fx.col && f.kind = .AX then getIdx pred 0
    else pure pred)
  match f.kind with
  | .PM => do
    let body ← itemsE pred
    let (s', A, P) ← choicewRows st.rng rows body
    if A.isEmpty then .error .value else pure (⟨.list .tmp A, .list .tmp P, kwargs⟩, s')
  | .AX => do
    let n ← lenE pred
    pure (⟨pred, noneList n, kwargs⟩, st.rng)
  | .AP =>
    if f.star then do
      let body ← itemsE pred
      let (A, P) ← unzipPairs body
      pure (⟨A, P, kwargs⟩, st.rng)
    else do
      let xs ← itemsE pred       -- `A,P = pred`
      match xs with
      | [A, P] => pure (⟨A, P, kwargs⟩, st.rng)
      | _ => .error .value

/-- the argument the learner is given (the safe actions) -/
def withActs : Arg → Acts → Arg
  | .single c _, .single as => .single c as
  | .batch cs _, .batch rows => .batch cs rows
  | a, _ => a

def argActs : Arg → Acts
  | .single _ as => .single as
  | .batch _ rows => .batch rows

/-- the first lines of `SafeLearner.predict`: `_prev_actions != actions` decides whether the float copies are rebuilt;
returns the state and the argument the learner is going to be given -/
def prepare (fx : Fixes) (st : State) (arg : Arg) : State × Arg :=
  let acts := argActs arg
  let changed := match st.prev with
    | Option.none => true
    | some p => !pyEq p.toPy acts.toPy
  let st := if changed then { st with prev := some acts, safe := safeActs fx acts } else st
  (st, withActs arg st.safe)

/-- first call only: `_pred_batch`, `_pred_kwargs`, `_pred_format` -/
def detect (fx : Fixes) (L : Learner) (st : State) (sarg : Arg) (pred : PyVal) (m : Nat) : Except Err State :=
  match st.layout with
  | some _ => pure st
  | Option.none => do
    let probe := (do let a1 ← firstOf sarg; let r ← safeCall fx L (some m) a1; pure r.1)
    let lay ← batchOrder fx probe pred sarg m
    let kw := hasKwargs pred lay
    let fr ← firstRow pred lay kw
    let firstActs ← (match sarg with
      | .single _ as => pure as
      | .batch _ rows => match rows with | r :: _ => pure r | [] => .error .index)
    let f ← predFormat fx fr (some firstActs)
    pure { st with layout := some lay, hasKw := kw, fmt := some f }

/-- `_parse_pred` after the first-call detection -/
def parse (fx : Fixes) (st : State) (sarg : Arg) (pred : PyVal) : Except Err (Result × State) :=
  match st.layout, st.fmt with
  | some lay, some f =>
    match lay, sarg with
    | .not, .single _ as => do
      let (r, s') ← parseNot st f as pred
      pure (r, { st with rng := s' })
    | .row, .batch _ rows => do
      let (r, s') ← parseRow st f rows pred
      pure (r, { st with rng := s' })
    | .col, .batch _ rows => do
      let (r, s') ← parseCol fx st f rows pred
      pure (r, { st with rng := s' })
    -- a wrapper that is switched between batched and unbatched calls keeps the layout memoised on its FIRST call:
    | .not, .batch _ rows => do            -- the whole batch answer is parsed as one unbatched answer
      let (r, s') ← parseNot st f (rows.map (fun r => PyVal.list .tmp r)) pred
      pure (r, { st with rng := s' })
    | .row, .single _ _ => do              -- one answer is parsed as a row-major batch of answers (PMF formats not modelled)
      let (r, s') ← parseRow st f [] pred
      pure (r, { st with rng := s' })
    | .col, .single _ _ => do
      let (r, s') ← parseCol fx st f [] pred
      pure (r, { st with rng := s' })
  | _, _ => .error .other

/-- the rest of `predict`, on the argument the learner is given -/
def predictCore (fx : Fixes) (L : Learner) (st : State) (sarg : Arg) : Except Err (Result × State) := do
  let (pred, m) ← safeCall fx L st.method sarg
  let st := { st with method := some m }
  let st ← detect fx L st sarg pred m
  parse fx st sarg pred

/-- `SafeLearner.predict(context, actions)` -/
def predict (fx : Fixes) (L : Learner) (st : State) (arg : Arg) : Except Err (Result × State) :=
  let (st1, sarg) := prepare fx st arg
  predictCore fx L st1 sarg

/-- the calls made to the learner by one `predict` -/
def predictTrace (fx : Fixes) (L : Learner) (st : State) (arg : Arg) : List Arg :=
  let (st1, sarg) := prepare fx st arg
  let main := safeCallTrace fx L st1.method sarg
  match st1.layout, safeCall fx L st1.method sarg with
  | Option.none, .ok (pred, m) =>
    if probeMade fx pred sarg m then
      match firstOf sarg with | .ok a1 => main ++ [a1] | .error _ => main
    else main
  | _, _ => main

/-- a whole evaluation: the calls in order -/
def run (fx : Fixes) (L : Learner) : State → List Arg → Except Err (List Result)
  | _, [] => pure []
  | st, a :: as => do
    let (r, st') ← predict fx L st a
    let rs ← run fx L st' as
    pure (r :: rs)

def initState (seed : Int) : State := { rng := Coba.C05.normInt seed }

/-! ### `learn`: the kwargs go back to the learner -/

structure LearnCall where
  ctx : PyVal
  action : PyVal
  reward : PyVal
  prob : PyVal
  kwKeys : List String
  kwVals : List PyVal
deriving Repr

/-- `_method2` for learn: `method(*a, **{k:v[i] for k,v in kwargs.items()})` for the i-th row -/
def learnRows : Nat → List PyVal → List PyVal → List PyVal → List PyVal → List String → List PyVal → Except Err (List LearnCall)
  | i, c :: cs, a :: as, r :: rs, p :: ps, ks, vs => do
    let kv ← mapE (fun v => getIdx v i) vs
    let rest ← learnRows (i + 1) cs as rs ps ks vs
    pure (⟨c, a, r, p, ks, kv⟩ :: rest)
  | _, _, _, _, _, _, _ => pure []

/-- `SafeLearner.learn(context, action, reward, probability, **kwargs)` as called by the evaluator with what predict
returned; `batchable = false`: the learner's learn raises on a batch.  Returns what the learner's learn is (successfully)
called with. -/
def learn (batchable : Bool) (arg : Arg) (res : Result) (reward : PyVal) : Except Err (List LearnCall) :=
  match res.kw with
  | .dict _ ks vs =>
    match arg with
    | .single c _ => pure [⟨c, res.a, reward, res.p, ks, vs⟩]
    | .batch cs _ =>
      if batchable then pure [⟨.list .tmp cs, res.a, reward, res.p, ks, vs⟩]
      else do
        let A ← itemsE res.a
        let R ← itemsE reward
        let P ← itemsE res.p
        let calls ← learnRows 0 cs A R P ks vs
        if calls.isEmpty then .error .coba else pure calls
  | _ => .error .type

/-! ### learners that answer in one documented format, consistently -/

inductive Fmt | A | AP | PM | dA | dAP | dPM
deriving DecidableEq, Repr

inductive Layout | single | row | col
deriving DecidableEq, Repr

def Fmt.hinted : Fmt → Bool | .dA | .dAP | .dPM => true | _ => false
def Fmt.hint : Fmt → String | .dA => "action" | .dAP => "action_prob" | .dPM => "pmf" | _ => ""

/-- what the learner wants to say about one row -/
structure Answer where
  pick : Nat
  p : PyVal
  pmf : List PyVal
  kwKeys : List String
  kwVals : List PyVal
deriving Repr

/-- a learner's policy: a function of (context, offered actions) -/
abbrev Policy := PyVal → List PyVal → Answer

structure Spec where
  fmt : Fmt
  kw : Bool
  layout : Layout
  /-- sequences the learner builds are tuples (else lists) -/
  tup : Bool := true
  /-- PMFs are tuples (else lists) -/
  pmfTup : Bool := false
deriving Repr

def mkSeq (tup : Bool) (xs : List PyVal) : PyVal := if tup then .tuple (.lrn 0) xs else .list (.lrn 0) xs

def mkPmf (sp : Bool) (xs : List PyVal) : PyVal := mkSeq sp xs

/-- the format-specific part of one row's answer, as a list of fields -/
def core (sp : Spec) (ans : Answer) (actions : List PyVal) : List PyVal :=
  let a := actions.getD ans.pick .none
  match sp.fmt with
  | .A => [a]
  | .AP => [a, ans.p]
  | .PM => [mkPmf sp.pmfTup ans.pmf]
  | .dA => [.dict (.lrn 0) ["action"] [a]]
  | .dAP => [.dict (.lrn 0) ["action_prob"] [mkSeq sp.tup [a, ans.p]]]
  | .dPM => [.dict (.lrn 0) ["pmf"] [mkPmf sp.pmfTup ans.pmf]]

def kwDict (ans : Answer) : PyVal := .dict (.lrn 0) ans.kwKeys ans.kwVals

/-- the answer to an unbatched call -/
def renderSingle (sp : Spec) (ans : Answer) (actions : List PyVal) : PyVal :=
  let c := core sp ans actions
  if sp.kw then mkSeq sp.tup (c ++ [kwDict ans])
  else match c with
    | [x] => x
    | _ => mkSeq sp.tup c

def zipWithAns (pol : Policy) : List PyVal → List (List PyVal) → List (Answer × List PyVal)
  | c :: cs, a :: as => (pol c a, a) :: zipWithAns pol cs as
  | _, _ => []

/-- `{k: [kw[k] for kw in kws] for k in kws[0]}` built by the learner itself (column-major kwargs) -/
def kwCols (rows : List (Answer × List PyVal)) : PyVal :=
  match rows with
  | [] => .dict (.lrn 0) [] []
  | (a0, _) :: _ =>
    .dict (.lrn 0) a0.kwKeys
      (a0.kwKeys.map (fun k => PyVal.list (.lrn 0) (rows.map (fun r => (lookupKey k r.1.kwKeys r.1.kwVals).getD .none))))

def renderCol (sp : Spec) (rows : List (Answer × List PyVal)) : PyVal :=
  let cores := rows.map (fun r => core sp r.1 r.2)
  let cols : List PyVal :=
    match sp.fmt with
    | .A | .AP => (zipStar cores).map (fun c => PyVal.list (.lrn 0) c)
    | .PM => (zipStar (rows.map (fun r => r.1.pmf))).map (fun c => PyVal.list (.lrn 0) c)
    | f => [.dict (.lrn 0) [f.hint]
              [.list (.lrn 0) (cores.map (fun c => match c with | [.dict _ _ [v]] => v | _ => .none))]]
  if sp.kw then mkSeq sp.tup (cols ++ [kwCols rows])
  else if sp.fmt.hinted then cols.getD 0 .none
  else mkSeq sp.tup cols

/-- the learner: answers every call in the one format of `sp`; `layout = single` raises on a batch -/
def scripted (sp : Spec) (pol : Policy) : Learner
  | .single c as => .ok (renderSingle sp (pol c as) as)
  | .batch cs rows =>
    match sp.layout with
    | .single => .error .learner
    | .row => .ok (.list (.lrn 0) ((zipWithAns pol cs rows).map (fun r => renderSingle sp r.1 r.2)))
    | .col => .ok (renderCol sp (zipWithAns pol cs rows))

end Coba.C15

namespace Coba.C15

/-! ### specification: what the property demands -/

def Fmt.kind : Fmt → Kind
  | .A | .dA => .AX | .AP | .dAP => .AP | .PM | .dPM => .PM

/-- the `_pred_format` the learner's format must be recognised as -/
def Spec.pfmt (sp : Spec) : PFmt := ⟨sp.fmt.kind, sp.fmt.hinted⟩

/-- the offered action the learner names -/
def Answer.action (ans : Answer) (actions : List PyVal) : PyVal := actions.getD ans.pick .none

def emptyKw : PyVal := .dict .tmp [] []

/-- what the evaluator must receive from an unbatched call answered with `ans` (and the rng state afterwards):
the named action / the stated probability / the kwargs; for a PMF the draw of `CobaRandom.choicew` -/
def wantSingle (sp : Spec) (s : Nat) (ans : Answer) (actions : List PyVal) : Except Err (Result × Nat) :=
  let kw := if sp.kw then kwDict ans else emptyKw
  match sp.fmt.kind with
  | .AX => .ok (⟨ans.action actions, .none, kw⟩, s)
  | .AP => .ok (⟨ans.action actions, ans.p, kw⟩, s)
  | .PM =>
    match choicew s actions (mkPmf sp.pmfTup ans.pmf) with
    | .ok (s', a, p) => .ok (⟨a, p, kw⟩, s')
    | .error e => .error e

/-- a batched result seen as rows: actions, probabilities, kwargs keys and one column of values per key -/
structure BatchView where
  A : List PyVal
  P : List PyVal
  keys : List String
  cols : List (List PyVal)

def allItems : List PyVal → Option (List (List PyVal))
  | [] => some []
  | v :: vs => match v.items, allItems vs with | some x, some xs => some (x :: xs) | _, _ => Option.none

def Result.view (r : Result) : Option BatchView :=
  match r.a.items, r.p.items, r.kw with
  | some A, some P, .dict _ ks vs => (allItems vs).map (fun cols => ⟨A, P, ks, cols⟩)
  | _, _, _ => Option.none

/-- the kwargs of a batch, per key the values of the rows in order (the keys are those of the first row; the rows of
one batch have the same keys, so the default is never used) -/
def wantKw (sp : Spec) (rows : List (Answer × List PyVal)) : List String × List (List PyVal) :=
  if sp.kw then
    match rows with
    | [] => ([], [])
    | (a0, _) :: _ => (a0.kwKeys, a0.kwKeys.map (fun k => rows.map (fun r => (lookupKey k r.1.kwKeys r.1.kwVals).getD .none)))
  else ([], [])

/-- what the evaluator must receive from a batched call: per row the named action and stated probability, or for
PMFs the draws of `CobaRandom.choicew` made row after row from the one generator -/
def wantBatch (sp : Spec) (s : Nat) (rows : List (Answer × List PyVal)) : Except Err (BatchView × Nat) :=
  let kw := wantKw sp rows
  match sp.fmt.kind with
  | .AX => .ok (⟨rows.map (fun r => r.1.action r.2), rows.map (fun _ => .none), kw.1, kw.2⟩, s)
  | .AP => .ok (⟨rows.map (fun r => r.1.action r.2), rows.map (fun r => r.1.p), kw.1, kw.2⟩, s)
  | .PM =>
    match choicewRows s (rows.map (·.2)) (rows.map (fun r => mkPmf sp.pmfTup r.1.pmf)) with
    | .ok (s', A, P) => .ok (⟨A, P, kw.1, kw.2⟩, s')
    | .error e => .error e

/-- the memoised state after a call answered in format `sp` -/
def stAfter (sp : Spec) (batched : Bool) (st : State) (rng : Nat) : State :=
  { st with
    rng := rng
    method := some (if batched && sp.layout == .single then 2 else 1)
    layout := some (if !batched then .not else if sp.layout == .col then .col else .row)
    hasKw := sp.kw
    fmt := some sp.pfmt }

/-- the SafeLearner is fresh, or has already answered calls of this learner (same batching) -/
def Inv (sp : Spec) (batched : Bool) (st : State) : Prop :=
  (st.method = Option.none ∧ st.layout = Option.none) ∨ st = stAfter sp batched st st.rng

/-! ### side conditions (decidable): the learner is inside the property's quantifier -/

/-- a top-level object built by a learner, or by SafeLearner while parsing (not an object the environment offered,
nor one of the float copies) -/
def isLrn : PyVal → Bool
  | .flt (.lrn _) _ | .str (.lrn _) _ | .tuple (.lrn _) _ | .list (.lrn _) _ | .dict (.lrn _) _ _ => true
  | .flt .tmp _ | .str .tmp _ | .tuple .tmp _ | .list .tmp _ | .dict .tmp _ _ => true
  | _ => false

/-- a PMF over the actions: numeric, non-negative, summing to one within the tolerance `possible_pmf` documents
(`isclose(sum, 1, abs_tol=.001)`; float32 softmaxes, `[0.3333]*3`, … are PMFs) -/
def validPmf (pmf : List PyVal) (as : List PyVal) : Bool :=
  pmf.length == as.length &&
  (match sumNums pmf with | some s => decide (s - 1 ≤ 1/1000 ∧ 1 - s ≤ 1/1000) | Option.none => false) &&
  pmf.all (fun x => match x.num with | some q => decide (0 ≤ q) | Option.none => false)

/-- an answer long enough for the pinned `pred_format` (which takes 0/1-item answers for already wrapped and indexes
two-item dicts with [0]); irrelevant once fixes/C15-pred-format-short-answers.diff is applied -/
def longEnough : PyVal → Bool
  | .dict _ ks _ => decide (2 < ks.length)
  | .tuple _ xs | .list _ xs => decide (2 ≤ xs.length)
  | _ => true

/-- `isinstance(v[-1], Mapping)` -/
def lastIsDict (v : PyVal) : Bool := match getLast v with | .ok x => x.isDict | .error _ => false

/-- The answer to the FIRST row of the FIRST call can be read in one way only (it is what the layout / kwargs / format
detection looks at).  Un-hinted answers:
* bare action: the action is not itself shaped like a hinted answer (a dict with a feature named action/action_prob/pmf),
  like an answer with kwargs (a sequence ending in a dict), or like (action, prob) (two items, the first of which IS an
  offered action);
* PMF: a PMF over the offered actions whose first entry (when there are two) is not one of the offered objects.
`fx.short = false` additionally excludes the answers the pinned `pred_format` mishandles (recorded defect C15-F1). -/
def firstRowOK (fx : Fixes) (sp : Spec) (ans : Answer) (as : List PyVal) : Bool :=
  decide (ans.pick < as.length) && as.all (fun a => !isLrn a) &&
  (match sp.fmt with
   | .A =>
     let a := ans.action as
     (sp.kw || !lastIsDict a) && !isHint a &&
       (match a.items with | some [x, _] => !as.any (fun b => pyIs x b) | _ => true) &&
       (fx.short || longEnough a)
   | .AP => !ans.p.isDict
   | .PM =>
     validPmf ans.pmf as && (match ans.pmf with | [x, _] => !as.any (fun b => pyIs x b) | _ => true) &&
       (fx.short || decide (2 ≤ ans.pmf.length))
   | .dA => true
   | .dAP => true
   | .dPM => ans.pmf.length == as.length)

end Coba.C15

namespace Coba.C15

/-- the rows of one batch give kwargs with the same key SET (in any order: `kwargs[0]` decides which keys the batch has,
every row is looked up by key) and every dict is well-formed (one value per key) -/
def sameKeys (rows : List (Answer × List PyVal)) : Bool :=
  match rows with
  | [] => true
  | (a0, _) :: _ =>
    rows.all (fun r => r.1.kwVals.length == r.1.kwKeys.length &&
      a0.kwKeys.all (fun k => r.1.kwKeys.contains k) && r.1.kwKeys.all (fun k => a0.kwKeys.contains k))

/-- two key/value lists are the same finite map -/
def kwEquiv (ks : List String) (vs : List PyVal) (ks' : List String) (vs' : List PyVal) : Prop :=
  ∀ k, lookupKey k ks vs = lookupKey k ks' vs'

end Coba.C15

namespace Coba.C15

/-- `x` (a parsed batch and the rng state) delivers what `w` demands; an error of `CobaRandom.choicew` (a PMF that
is no PMF) comes out as that error -/
def DeliversN (x : Except Err (Result × Nat)) (w : Except Err (BatchView × Nat)) : Prop :=
  match w with
  | .ok (v, s') => ∃ r, x = .ok (r, s') ∧ r.view = some v
  | .error e => x = .error e

def Delivers (x : Except Err (Result × State)) (w : Except Err (BatchView × Nat)) (stOf : Nat → State) : Prop :=
  match w with
  | .ok (v, s') => ∃ r, x = .ok (r, stOf s') ∧ r.view = some v
  | .error e => x = .error e

end Coba.C15

namespace Coba.C15

/-- two dicts with the same key set -/
def keysSame : PyVal → PyVal → Bool
  | .dict _ ks _, .dict _ ks' _ => ks.all (ks'.contains ·) && ks'.all (ks.contains ·)
  | _, _ => false

/-- Row-major bare sparse actions (a batch answered with a list of dicts): the pinned `raise_if_not_valid_out` /
`batch_order` take a first and a last row with different feature names for `[{hint: column}, kwargs]` (recorded defect
C15-F4); irrelevant once fixes/C15-sparse-rows-not-colkw.diff is applied. -/
def dictRowsOK (fx : Fixes) (sp : Spec) (rows : List (Answer × List PyVal)) : Bool :=
  fx.rowdict || !(sp.fmt == .A && !sp.kw) ||
    (match rows.head?, rows.getLast? with
     | some f, some l => !((f.1.action f.2).isDict && (l.1.action l.2).isDict) || keysSame (f.1.action f.2) (l.1.action l.2)
     | _, _ => true)

end Coba.C15

namespace Coba.C15

/-- column-major answers the pinned `_parse_pred` reads correctly ((action, prob) columns and hinted answers without
kwargs); everything else needs fixes/C15-colmajor-parse.diff (recorded defect C15-F3) -/
def colParseOK (fx : Fixes) (sp : Spec) : Bool :=
  fx.col || sp.fmt == .AP || (sp.fmt.hinted && !sp.kw)

/-- un-hinted column-major PMFs form a table: every row has the same number (≥ 1) of entries -/
def pmfTable (sp : Spec) (rows : List (Answer × List PyVal)) : Bool :=
  sp.fmt != .PM ||
    (match rows with
     | [] => true
     | r :: _ => decide (0 < r.1.pmf.length) && rows.all (fun x => x.1.pmf.length == r.1.pmf.length))

end Coba.C15

namespace Coba.C15

/-- number of columns of an un-hinted column-major answer (without the kwargs column) -/
def ncols (sp : Spec) (a0 : Answer) : Nat :=
  match sp.fmt with
  | .AP => 2
  | .PM => a0.pmf.length
  | _ => 1

/-- The FIRST column-major answer has a shape that can be read in one way only:
* un-hinted: not a single column answering a single row (`[[a]]` is also the row-major answer whose row is the list
  `[a]`), and a PMF has at least two columns (one column of probabilities has the shape of a column of actions);
* hinted with kwargs: no kwargs key is named like the hint (`[{'pmf': …}, {'pmf': …}]` is also two hinted rows). -/
def colFirstOK (sp : Spec) (a0 : Answer) (n : Nat) : Bool :=
  if sp.fmt.hinted then !sp.kw || !a0.kwKeys.contains sp.fmt.hint
  else (sp.fmt != .PM || decide (2 ≤ a0.pmf.length)) &&
    !(ncols sp a0 + (if sp.kw then 1 else 0) == 1 && n == 1)

end Coba.C15

namespace Coba.C15

/-- the rows of a batched call as the learner sees them: its intended answer and the actions it is given -/
def rowsOf (pol : Policy) (cs : List PyVal) (rows : List (List PyVal)) : List (Answer × List PyVal) := zipWithAns pol cs rows

/-- side conditions on EVERY batched call -/
def callOK (fx : Fixes) (sp : Spec) (R : List (Answer × List PyVal)) : Bool :=
  match sp.layout with
  | .col => colParseOK fx sp && pmfTable sp R
  | _ => !sp.kw || sameKeys R

/-- side conditions on the FIRST batched call (the one layout, kwargs and format are detected on) -/
def firstCallOK (fx : Fixes) (sp : Spec) (R : List (Answer × List PyVal)) : Bool :=
  match R with
  | [] => false
  | r :: R' =>
    firstRowOK fx sp r.1 r.2 &&
      (match sp.layout with
       | .col => colFirstOK sp r.1 (R'.length + 1)
       | _ => dictRowsOK fx sp (r :: R'))

/-- "the learner uses one documented format consistently, answering with the offered action objects themselves, or with
explicit dict hints where a value could be read two ways" - for one batched call in state `st` -/
def Unambiguous (fx : Fixes) (sp : Spec) (st : State) (R : List (Answer × List PyVal)) : Bool :=
  callOK fx sp R && (st.layout.isSome || firstCallOK fx sp R)

end Coba.C15

namespace Coba.C15

/-! ### whole evaluations: predict, then learn with what predict returned (as SequentialCB does) -/

/-- one evaluation history: for every interaction `predict(context, actions)` and then
`learn(context, action, reward, probability, **kwargs)` with what predict returned.  `batchable = false`: the learner's
`learn` raises on a batch (per-row fallback) - whatever its `predict` does with batches (`_method` is kept per method).  Returns per interaction the result and what the learner's learn was given. -/
def runHistory (fx : Fixes) (L : Learner) (batchable : Bool) : State → List (Arg × PyVal) → Except Err (List (Result × List LearnCall))
  | _, [] => pure []
  | st, (a, rw) :: h => do
    let (r, st') ← predict fx L st a
    let lc ← learn batchable a r rw
    let rest ← runHistory fx L batchable st' h
    pure ((r, lc) :: rest)

/-- what the learner's `learn` must be given for one batched interaction whose result has the view `v`:
a learner that takes batches - one call with the kwargs as one column per key; otherwise one call per row with that
row's context, action, reward, probability and kwargs (as a finite map: `kwargs_row_map`) -/
def LearnMeets (batchable : Bool) (cs : List PyVal) (rw : PyVal) (r : Result) (v : BatchView) (lc : List LearnCall) : Prop :=
  if batchable then
    ∃ ref vs, r.kw = .dict ref v.keys vs ∧ allItems vs = some v.cols ∧ lc = [⟨.list .tmp cs, r.a, rw, r.p, v.keys, vs⟩]
  else
    lc.length = cs.length ∧
    ∀ (j : Nat) (call : LearnCall), lc[j]? = some call →
      cs[j]? = some call.ctx ∧ v.A[j]? = some call.action ∧ v.P[j]? = some call.prob ∧
      (∃ R, rw.items = some R ∧ R[j]? = some call.reward) ∧
      call.kwKeys = v.keys ∧ call.kwVals = v.cols.map (fun c => c.getD j .none)

/-- the history delivers, interaction by interaction, what the learner meant (`wantSingle` / `wantBatch` on the argument
the learner is given, with the generator state threaded through), and every learn gets the kwargs of its predict;
a PMF that `CobaRandom.choicew` rejects ends the history with that error -/
def HistDelivers (fx : Fixes) (sp : Spec) (pol : Policy) (batchable : Bool) :
    State → List (Arg × PyVal) → Except Err (List (Result × List LearnCall)) → Prop
  | _, [], x => x = .ok []
  | st, (a, rw) :: h, x =>
    match (prepare fx st a).2 with
    | .single c gs =>
      match wantSingle sp (prepare fx st a).1.rng (pol c gs) gs with
      | .error e => x = .error e
      | .ok (r, s') =>
        ∃ rest, HistDelivers fx sp pol batchable (stAfter sp false (prepare fx st a).1 s') h rest ∧
          x = rest.map (fun l => (r, [⟨c, r.a, rw, r.p, (if sp.kw then (pol c gs).kwKeys else []), (if sp.kw then (pol c gs).kwVals else [])⟩]) :: l)
    | .batch cs grows =>
      match wantBatch sp (prepare fx st a).1.rng (rowsOf pol cs grows) with
      | .error e => x = .error e
      | .ok (v, s') =>
        ∃ r lc rest, r.view = some v ∧ LearnMeets batchable cs rw r v lc ∧
          HistDelivers fx sp pol batchable (stAfter sp true (prepare fx st a).1 s') h rest ∧
          x = rest.map (fun l => (r, lc) :: l)

/-- the side conditions of a history, interaction by interaction on the argument the learner is given (`prepare`: the
float copies, or the cached ones when the offered actions `==` the previous ones): every interaction is batched (or none is),
shaped like a batch with one reward per row, and its answers are `Unambiguous` in the state the SafeLearner is in
(first interaction: detection; later ones: the memo) -/
def histOK (fx : Fixes) (sp : Spec) (pol : Policy) (batched : Bool) : State → List (Arg × PyVal) → Bool
  | _, [] => true
  | st, (a, rw) :: h =>
    (match (prepare fx st a).2 with
     | .single c gs =>
       !batched && ((prepare fx st a).1.layout.isSome || firstRowOK fx sp (pol c gs) gs)
     | .batch cs grows =>
       batched && cs.length == grows.length && !grows.isEmpty &&
         (match rw.items with | some R => R.length == cs.length | Option.none => false) &&
         Unambiguous fx sp (prepare fx st a).1 (rowsOf pol cs grows)) &&
    histOK fx sp pol batched { (prepare fx st a).1 with layout := some .not } h

end Coba.C15

namespace Coba.C15

/-! ### `SafeLearner.score` -/

/-- the arguments of `score(context, actions, action)` (the offered actions themselves: no float copies here) -/
inductive SArg
  | single (ctx : PyVal) (actions : List PyVal) (action : PyVal)
  | batch (ctxs : List PyVal) (actions : List (List PyVal)) (acts : List PyVal)
deriving Repr

/-- a learner's `score`: a function of what it is given; `.error` = it raised -/
abbrev Scorer := SArg → Except Err PyVal

/-- `_method2` for score: one call per row, `zip(context, actions, action)` -/
def scorePerRow (S : Scorer) : List PyVal → List (List PyVal) → List PyVal → Except Err (List PyVal)
  | c :: cs, a :: as, x :: xs => do
    let p ← S (.single c a x)
    let ps ← scorePerRow S cs as xs
    pure (p :: ps)
  | _, _, _ => pure []

def scoreMethod2 (S : Scorer) (cs : List PyVal) (rows : List (List PyVal)) (acts : List PyVal) : Except Err PyVal := do
  let ps ← scorePerRow S cs rows acts
  if ps.isEmpty then .error .coba else pure (.list .tmp ps)

/-- `SafeLearner.score`: `_safe_call('score', learner.score, (context, actions, action))` with its own memo;
`S = none`: the learner has no `score` (AttributeError → CobaException).  Returns the value and the memo afterwards. -/
def score (fx : Fixes) (S : Option Scorer) (method : Option Nat) (arg : SArg) : Except Err (PyVal × Nat) :=
  match S with
  | Option.none => .error .coba
  | some S =>
    match arg with
    | .single .. =>
      match method with
      | some 2 => .error .other
      | _ => do let p ← S arg; pure (p, 1)
    | .batch cs rows acts =>
      match method with
      | some 1 => do let p ← S arg; pure (p, 1)
      | some _ => do let p ← scoreMethod2 S cs rows acts; pure (p, 2)
      | Option.none =>
        let n := cs.length
        match S arg with
        | .ok out =>
          if validOut fx out n then .ok (out, 1)
          else match scoreMethod2 S cs rows acts with
            | .ok out2 => if validOut fx out2 n then .ok (out2, 2) else .error .coba
            | .error e => .error e
        | .error _ =>
          match scoreMethod2 S cs rows acts with
          | .ok out2 => if validOut fx out2 n then .ok (out2, 2) else .error .coba
          | .error e => .error e

/-- the score a learner with policy `pol` gives an action: the probability it states for the action it names, 0 for
any other action -/
def scoreOf (pol : Policy) (c : PyVal) (as : List PyVal) (x : PyVal) : PyVal :=
  let ans := pol c as
  if pyEq x (ans.action as) then ans.p else .flt (.lrn 0) 0

def scoresOf (pol : Policy) : List PyVal → List (List PyVal) → List PyVal → List PyVal
  | c :: cs, a :: as, x :: xs => scoreOf pol c a x :: scoresOf pol cs as xs
  | _, _, _ => []

/-- the scripted learner's `score`: per-row values in a sequence for a batch; `batchable = false`: raises on a batch -/
def scriptedScore (pol : Policy) (batchable : Bool) (tup : Bool) : Scorer
  | .single c as x => .ok (scoreOf pol c as x)
  | .batch cs rows acts => if batchable then .ok (mkSeq tup (scoresOf pol cs rows acts)) else .error .learner

end Coba.C15

namespace Coba.C15

/-! ### re-wrapping: `SafeLearner(SafeLearner(learner), seed)` -/

/-- `SafeLearner.__init__`: wrapping an existing SafeLearner unwraps it to its learner; the new wrapper starts from its
OWN state (its own generator `CobaRandom(seed)`, an empty `_method` memo, nothing detected): nothing is shared -/
def rewrap (_inner : State) (seed : Int) : State := initState seed

/-- two wrappers around one learner, called in any interleaving (`true` = the outer one); a call that raises leaves the
wrapper's modelled state as it was -/
def runTwo (fx : Fixes) (L : Learner) : State → State → List (Bool × Arg) → List (Bool × Except Err Result)
  | _, _, [] => []
  | s0, s1, (w, a) :: h =>
    match predict fx L (if w then s1 else s0) a with
    | .ok (r, s') => (w, .ok r) :: (if w then runTwo fx L s0 s' h else runTwo fx L s' s1 h)
    | .error e => (w, .error e) :: runTwo fx L s0 s1 h

/-- one wrapper on its own calls -/
def runOne (fx : Fixes) (L : Learner) : State → List Arg → List (Except Err Result)
  | _, [] => []
  | s, a :: h =>
    match predict fx L s a with
    | .ok (r, s') => .ok r :: runOne fx L s' h
    | .error e => .error e :: runOne fx L s h

end Coba.C15

namespace Coba.C15

/-! ### `has_score` and the error paths of `score`: the exception TEXT decides -/

def isPrefixL : List Char → List Char → Bool
  | [], _ => true
  | _ :: _, [] => false
  | a :: as, b :: bs => a == b && isPrefixL as bs

def isInfixL (p : List Char) : List Char → Bool
  | [] => p.isEmpty
  | c :: cs => isPrefixL p (c :: cs) || isInfixL p cs

/-- Python `sub in s` -/
def strContains (s sub : String) : Bool := isInfixL sub.toList s.toList

/-- what `learner.score(...)` does when it does not return: the exception's class (AttributeError or not) and `str(ex)` -/
structure ScoreFailure where
  attr : Bool
  msg : String
deriving Repr, DecidableEq

/-- the probe `self.learner.score(None,None,None)` of `has_score` -/
inductive ScoreProbe
  | returns
  | raises (f : ScoreFailure)
deriving Repr

/-- `SafeLearner.has_score`: `"score" not in str(ex)` -/
def hasScore : ScoreProbe → Bool
  | .returns => true
  | .raises f => !strContains f.msg "score"

/-- the exception `SafeLearner.score` ends with when the learner's `score` raised `f`: an AttributeError whose text contains
`'score'` (with the quotes) becomes CobaException("The `score` method is not implemented"), anything else passes -/
def scoreRaises (f : ScoreFailure) : Err :=
  if f.attr && strContains f.msg "'score'" then .coba else if f.attr then .attr else .learner

/-- `SafeLearner.score` with the error paths: `S = none` is a learner without a `score` attribute (CPython raises
AttributeError "'T' object has no attribute 'score'" when the bound method is looked up); a scorer that raises does so
with `fail` -/
def scoreFull (fx : Fixes) (S : Option Scorer) (fail : ScoreFailure) (method : Option Nat) (arg : SArg) : Except Err (PyVal × Nat) :=
  match S with
  | Option.none => .error .coba
  | some S =>
    match score fx (some S) method arg with
    | .error .learner => .error (scoreRaises fail)
    | x => x

end Coba.C15

namespace Coba.C15

/-- what kind of `score` a learner has -/
inductive ScoreKind
  /-- no `score` attribute at all (class name `cls`) -/
  | absent (cls : String)
  /-- inherits `coba.primitives.Learner.score` (raises NotImplementedError) -/
  | base
  /-- implements `score`; `probe` is what it does on `(None, None, None)` -/
  | implemented (probe : ScoreProbe)
deriving Repr

def probeOf : ScoreKind → ScoreProbe
  | .absent cls => .raises ⟨true, "'" ++ cls ++ "' object has no attribute 'score'"⟩
  | .base => .raises ⟨false, "The `score` interface has not been implemented for this learner."⟩
  | .implemented p => p

end Coba.C15

namespace Coba.C15

/-- what one sees of a run: per call whether the "action" returned is a string, its length, and whether the "probability"
is a sequence (used by the witnesses about wrappers switched between batched and unbatched calls) -/
def obsRun (x : Except Err (List Result)) : Except Err (List (Bool × Nat × Bool)) :=
  x.map (fun rs => rs.map (fun r => (r.a.isStr, r.a.len, r.p.hasLen)))

/-- values on which Python's `==` is decided without looking inside containers -/
def isScalar : PyVal → Bool
  | .none | .bool _ | .int _ | .flt _ _ | .str _ _ => true
  | _ => false

end Coba.C15

/-! ### Phase 4: the format is decided once; memo-aware learn -/

namespace Coba.C15

/-- what `_parse_pred` memoises on the first call -/
structure Decided where
  lay : BLayout
  kw : Bool
  f : PFmt
deriving Repr

def State.decidedAs (st : State) (d : Decided) : Prop :=
  st.layout = some d.lay ∧ st.hasKw = d.kw ∧ st.fmt = some d.f

/-- the decision a state carries, if any -/
def State.decided? (st : State) : Option Decided :=
  match st.layout, st.fmt with
  | some l, some f => some ⟨l, st.hasKw, f⟩
  | _, _ => Option.none

/-- a wrapper that only knows the decided format, the generator state and the call style memo: no cached actions -/
def State.core (st : State) : State :=
  { rng := st.rng, method := st.method, layout := st.layout, hasKw := st.hasKw, fmt := st.fmt }

def State.withCache (s st : State) : State := { s with prev := st.prev, safe := st.safe }

/-- a whole evaluation in which every call is made on a wrapper that has the format `d` decided beforehand: only the
generator state, the call-style memo and the action cache are threaded from call to call -/
def runFrozen (fx : Fixes) (L : Learner) (d : Decided) : State → List Arg → Except Err (List Result)
  | _, [] => pure []
  | st, a :: as => do
    let (r, st') ← predict fx L { st with layout := some d.lay, hasKw := d.kw, fmt := some d.f } a
    let rs ← runFrozen fx L d st' as
    pure (r :: rs)

/-- `run` the way `history_format_decided_once` splits it: the first call decides, the rest is `runFrozen` -/
def runSplit (fx : Fixes) (L : Learner) (st : State) : List Arg → Except Err (List Result)
  | [] => pure []
  | a :: as => do
    let (r, st') ← predict fx L st a
    match st'.decided? with
    | some d => (runFrozen fx L d st' as).map (fun rs => r :: rs)
    | Option.none => .error .other

/-- `run` with every call on a decided wrapper made on `State.core` (nothing of the history but format, generator, memo) -/
def runCore (fx : Fixes) (L : Learner) : State → List Arg → Except Err (List Result)
  | _, [] => pure []
  | st, a :: as => do
    let st1 := (prepare fx st a).1
    let sarg := (prepare fx st a).2
    let (r, st') ← (if st1.layout.isSome then (predictCore fx L st1.core sarg).map (fun p => (p.1, p.2.withCache st1))
                    else predictCore fx L st1 sarg)
    let rs ← runCore fx L st' as
    pure (r :: rs)

/-- `SafeLearner.learn` with the call-style memo `_method['learn']` (decided on the FIRST learn call and kept, also when the
wrapper is later switched between batched and unbatched calls): memo 1 passes everything straight to the learner (a learner
whose learn cannot batch then raises), memo 2 calls `_method2` (per row; on an unbatched call `zip(*args)` over scalars raises) -/
def learnM (batchable : Bool) (memo : Option Nat) (arg : Arg) (res : Result) (reward : PyVal) : Except Err (List LearnCall × Nat) :=
  match res.kw with
  | .dict _ ks vs =>
    let perRow (cs : List PyVal) : Except Err (List LearnCall × Nat) := do
      let A ← itemsE res.a
      let R ← itemsE reward
      let P ← itemsE res.p
      let calls ← learnRows 0 cs A R P ks vs
      if calls.isEmpty then .error .coba else pure (calls, 2)
    match memo, arg with
    | some 2, .single _ _ => .error .other
    | some 2, .batch cs _ => perRow cs
    | some _, .single c _ => pure ([⟨c, res.a, reward, res.p, ks, vs⟩], 1)
    | some _, .batch cs _ => if batchable then pure ([⟨.list .tmp cs, res.a, reward, res.p, ks, vs⟩], 1) else .error .learner
    | Option.none, .single c _ => pure ([⟨c, res.a, reward, res.p, ks, vs⟩], 1)
    | Option.none, .batch cs _ => if batchable then pure ([⟨.list .tmp cs, res.a, reward, res.p, ks, vs⟩], 1) else perRow cs
  | _ => .error .type

/-- predict / learn histories with both memos threaded; stops at the first error, reporting what was delivered so far -/
def runHistoryM (fx : Fixes) (L : Learner) (batchable : Bool) : State → Option Nat → List (Arg × PyVal) → List (Except Err (Result × List LearnCall))
  | _, _, [] => []
  | st, memo, (a, rw) :: h =>
    match predict fx L st a with
    | .error e => [.error e]
    | .ok (r, st') =>
      match learnM batchable memo a r rw with
      | .error e => [.error e]
      | .ok (lc, m') => .ok (r, lc) :: runHistoryM fx L batchable st' (some m') h

/-- the memo value a uniformly used wrapper holds for learn -/
def learnMemoOK (batchable : Bool) (memo : Option Nat) (arg : Arg) : Bool :=
  match memo, arg with
  | Option.none, _ => true
  | some 1, .single .. => true
  | some 1, .batch .. => batchable
  | some 2, .batch .. => !batchable
  | _, _ => false


end Coba.C15

/-! ## Phase 5: nan, and `possible_pmf` / `pred_format` as the source writes them -/

namespace Coba.C15

/-! ### nan
`float('nan')` objects are represented inside the existing value domain (no new constructor, so every case
split about `PyVal` stands): the nan object created by `r` is the float token `mkNan r`, whose rational
payload is a code of `r` below `nanBound`, a range no real float of a checked case lies in (`PyVal.nanFree`).
Python compares container items with `x is y or x == y` (`PyObject_RichCompareBool`; `list.__eq__`, `in`), and
`nan == y` is False for every y: `richEq` below says exactly that on a wrapper type with an explicit nan, and
`nan_encoding_faithful` (Props) proves that the model's `pyIs || pyEq` on the tokens computes it. -/

def Ref.code : Ref → Nat
  | .ext n => 4 * n | .safe n => 4 * n + 1 | .lrn n => 4 * n + 2 | .tmp => 3

def nanBound : Rat := -1099511627776
def nanVal (k : Nat) : Rat := nanBound - 1 - (k : Rat)
/-- the nan object made by `r` -/
def mkNan (r : Ref) : PyVal := .flt r (nanVal r.code)
def isNanVal (q : Rat) : Bool := decide (q < nanBound)
/-- is the value itself a nan token? -/
def PyVal.isNan : PyVal → Bool | .flt _ q => isNanVal q | _ => false
/-- a number that is not in the token range (any non-number qualifies) -/
def PyVal.nanFree (v : PyVal) : Bool := match v.num with | some q => !isNanVal q | Option.none => true

/-- a number object is not the nan object made by `r` (one object is either a nan or a number) -/
def objDistinct (r : Ref) : PyVal → Bool
  | .flt r' _ => r != r'
  | _ => true

/-- Python values with an explicit nan -/
inductive NVal
  | nan (r : Ref)
  | val (v : PyVal)

def NVal.enc : NVal → PyVal
  | .nan r => mkNan r
  | .val v => v

/-- `PyObject_RichCompareBool(x, y, Py_EQ)` = `x is y or x == y`, with `nan == y` False for every y -/
def richEq : NVal → NVal → Bool
  | .nan r, .nan r' => r == r'
  | .nan _, .val _ => false
  | .val _, .nan _ => false
  | .val a, .val b => pyIs a b || pyEq a b

/-- `list.__eq__` (what `_prev_actions != actions` negates) -/
def richEqList : List NVal → List NVal → Bool
  | [], [] => true
  | x :: xs, y :: ys => richEq x y && richEqList xs ys
  | _, _ => false

/-- reading a model value back: a float in the token range is the nan object of its ref -/
def NVal.ofPy : PyVal → NVal
  | .flt r q => if isNanVal q then .nan r else .val (.flt r q)
  | v => .val v

/-- the model's comparison of container items -/
def itemEq (a b : PyVal) : Bool := pyIs a b || pyEq a b

end Coba.C15

/-! ### `pred_format` as a decision tree (the translator writes the tree of the CURRENT source into
`Generated/C15PredFormat.lean`; `pred_format_table` proves that running it is `predFormat Fixes.all`) -/

namespace Coba.C15

/-- the tests `pred_format` makes (the translator maps the source text of each `if` test to one of these; any other text is `unknown`) -/
inductive PFAtom
  | isDict          -- isinstance(std_pred, dict)
  | hasPmf          -- 'pmf' in std_pred
  | noActions       -- not actions
  | pmfLenBad       -- no_len(pmf) or len(pmf) != len(actions)
  | hasAction       -- 'action' in std_pred
  | hasAP           -- 'action_prob' in std_pred
  | apLenBad        -- no_len(ap) or len(ap) != 2
  | scalarLike      -- no_len(std_pred) or isinstance(std_pred, (str, dict))
  | lenNe2          -- len(std_pred) != 2
  | lenEq2          -- len(std_pred) == 2
  | actionsEmpty    -- actions == [] or actions is None
  | itemIsAction    -- any(std_pred[0] is a for a in actions)
  | possPmf         -- SafeLearner.possible_pmf(std_pred[0], actions)
  | possAct         -- SafeLearner.possible_action(std_pred[0], actions)
  | unknown
deriving DecidableEq, Repr

/-- the statements of `pred_format`'s body -/
inductive PFStmt
  | ite (c : PFAtom) (thn els : List PFStmt)
  | ret (kind : Kind) (star : Bool)      -- return 'PM*' …
  | raise                                -- raise <one of the CobaExceptions built at the top>
  | wrap                                 -- std_pred = [std_pred]
  | bind (key : String)                  -- pmf = std_pred['pmf']
  | skip                                 -- pass
  | unknown
deriving Repr

inductive PFRes
  | done (r : Except Err PFmt)
  | cont (wrapped : Bool)

/-- `std_pred[0]` after / before `std_pred = [std_pred]` -/
def pfItem (sp : PyVal) (wrapped : Bool) : Except Err PyVal := if wrapped then .ok sp else getIdx sp 0

def pfEval (sp : PyVal) (acts : List PyVal) (wrapped : Bool) : PFAtom → Except Err Bool
  | .isDict => .ok sp.isDict
  | .hasPmf => .ok (hasKey "pmf" sp)
  | .hasAction => .ok (hasKey "action" sp)
  | .hasAP => .ok (hasKey "action_prob" sp)
  | .noActions => .ok acts.isEmpty
  | .actionsEmpty => .ok acts.isEmpty
  | .pmfLenBad => do let pmf ← getKey "pmf" sp; pure (!pmf.hasLen || pmf.len != acts.length)
  | .apLenBad => do let ap ← getKey "action_prob" sp; pure (!ap.hasLen || ap.len != 2)
  | .scalarLike => .ok (!sp.hasLen || sp.isStr || sp.isDict)
  | .lenNe2 => .ok (sp.len != 2)
  | .lenEq2 => .ok (if wrapped then false else sp.len == 2)
  | .itemIsAction => do let x ← pfItem sp wrapped; pure (acts.any (fun a => pyIs x a))
  | .possPmf => do let x ← pfItem sp wrapped; pure (possiblePmf x acts)
  | .possAct => do let x ← pfItem sp wrapped; pure (possibleAction x acts)
  | .unknown => .error .other

mutual
def pfExec (sp : PyVal) (acts : List PyVal) : PFStmt → Bool → PFRes
  | .ite c t e, w =>
    match pfEval sp acts w c with
    | .ok b => if b then pfExecL sp acts t w else pfExecL sp acts e w
    | .error e => .done (.error e)
  | .ret k s, _ => .done (.ok ⟨k, s⟩)
  | .raise, _ => .done (.error .coba)
  | .wrap, _ => .cont true
  | .bind k, w => match getKey k sp with | .ok _ => .cont w | .error e => .done (.error e)
  | .skip, w => .cont w
  | .unknown, _ => .done (.error .other)
def pfExecL (sp : PyVal) (acts : List PyVal) : List PFStmt → Bool → PFRes
  | [], w => .cont w
  | s :: ss, w =>
    match pfExec sp acts s w with
    | .cont w' => pfExecL sp acts ss w'
    | .done r => .done r
end

/-- run a `pred_format` body on (std_pred, actions) -/
def pfRun (tree : List PFStmt) (sp : PyVal) (actions : Option (List PyVal)) : Except Err PFmt :=
  match pfExecL sp (actions.getD []) tree false with
  | .done r => r
  | .cont _ => .error .other


/-! ## Phase 6: the action cache when the caller reuses ONE list object (aliasing of caller-owned data)

`SafeLearner.predict` stores `self._prev_actions = actions` - a REFERENCE to the caller's list - and, when no 0/1 is offered,
`self._safe_actions = actions` (the caller's list itself).  A caller that refills ITS list in place and passes it again makes
`_prev_actions != actions` compare the list with itself.  `OCall` = one call as the caller makes it: which of its list objects it
passes (`oid`) and what that object holds NOW.  `prepareRef` mirrors the pinned lines with the reference kept; the value-based
`prepare` (what every other theorem is about) is the repaired code (`_prev_actions` = a copy). -/

structure OCall where
  oid : Nat
  arg : Arg
deriving Repr

structure AState where
  st : State
  /-- the caller's object `_prev_actions` refers to -/
  prevOid : Option Nat := Option.none
  /-- `_safe_actions` IS that object (nothing had to be copied) -/
  aliasSafe : Bool := false
deriving Repr

/-- no float copy was needed: `_safe_actions = actions` (`is_safe` of the list / of every row; the pinned batched code never copied) -/
def actsUntouched (fx : Fixes) : Acts → Bool
  | .single as => !as.any isZeroOne
  | .batch rows => !fx.batch || rows.all (fun r => !r.any isZeroOne)

def prepareRef (fx : Fixes) (a : AState) (c : OCall) : AState × Arg :=
  if a.prevOid = some c.oid then
    -- the list compared with itself: never "changed".  The kept object holds the new content; an aliased `_safe_actions` too,
    -- a float-copy list made for an earlier content stays as it is (stale)
    let acts := argActs c.arg
    let st := { a.st with prev := some acts, safe := if a.aliasSafe then acts else a.st.safe }
    ({ a with st := st }, withActs c.arg st.safe)
  else
    let changed := match a.st.prev with
      | Option.none => true
      | some p => !pyEq p.toPy (argActs c.arg).toPy
    let r := prepare fx a.st c.arg
    (if changed then { st := r.1, prevOid := some c.oid, aliasSafe := actsUntouched fx (argActs c.arg) } else { a with st := r.1 }, r.2)

/-- what the learner is offered, call after call (pinned: reference kept) -/
def runPrepRef (fx : Fixes) : AState → List OCall → List Arg
  | _, [] => []
  | a, c :: cs => (prepareRef fx a c).2 :: runPrepRef fx (prepareRef fx a c).1 cs

/-- what the learner is offered, call after call (repaired: a copy kept = the value-based `prepare`) -/
def runPrep (fx : Fixes) : State → List OCall → List Arg
  | _, [] => []
  | st, c :: cs => (prepare fx st c.arg).2 :: runPrep fx (prepare fx st c.arg).1 cs

/-- the caller never passes the object the wrapper currently keeps a reference to -/
def neverKept (fx : Fixes) : AState → List OCall → Bool
  | _, [] => true
  | a, c :: cs => (a.prevOid != some c.oid) && neverKept fx (prepareRef fx a c).1 cs

/-- every call passes an object never passed before (a fresh list per interaction, as coba's environments build them) -/
def freshObjects : List Nat → List OCall → Bool
  | _, [] => true
  | seen, c :: cs => !seen.contains c.oid && freshObjects (c.oid :: seen) cs

end Coba.C15
