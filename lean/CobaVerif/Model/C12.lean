/-
C12 — What coba reads from a dataset file is what the file says.
Executable model + spec.  Import-free (core Lean only).

Text is a list of Unicode code points (`Nat`), bytes are `Nat` (< 256).

Part A  delivery: `HttpSource._byte_it_` + `DelimSource.read` (coba/pipes/sources.py)
          * UTF-8 as a byte-level automaton (`u8step`): strict whole-chunk decoding (what the
            current code does per chunk) and incremental decoding (the proposed fix) are both
            runs of this automaton,
          * `splitlines` (Python `str.splitlines`) as the spec of "the lines of a text",
          * `delimCur` = the loop of `DelimSource.read` as written, `delimFix` = the repaired loop,
          * decompression as an abstract streaming machine (`Decomp`).
Part B  `DiskSink.write` / `DiskSource.read` framing.
Part C  Python's `csv.reader` state machine, `CsvReader`, `LibsvmReader`, `ManikReader`,
        the dense line parser of `ArffLineReader`, and the canonical writers.
-/
namespace Coba.C12

/-- bytes (< 256) and code points are plain `Nat` (so that `omega` sees them) -/
abbrev Text := List Nat

inductive Err where
  | unicodeDecode     -- UnicodeDecodeError
  | unicodeEncode     -- UnicodeEncodeError (lone surrogate / out of range)
  | stopIteration     -- StopIteration escaping `next(lines)` in CsvReader.filter
  | csvError          -- _csv.Error
  | valueError        -- ValueError (LibsvmReader unpacking)
  | indexError        -- IndexError
  | cobaException     -- CobaException (ARFF column count)
  | typeError         -- TypeError
  deriving DecidableEq, Repr

/-! ## A.1 UTF-8 -/

/-- decoder state: `need` continuation bytes outstanding, accumulated value, and the admissible
range of the *next* continuation byte (this is how overlong forms, surrogates and values above
U+10FFFF are rejected, exactly as CPython's decoder does). -/
structure U8 where
  need : Nat
  acc  : Nat
  lo   : Nat
  hi   : Nat
  deriving DecidableEq, Repr

def U8.init : U8 := ⟨0, 0, 0x80, 0xBF⟩

/-- one byte through the decoder: new state and the code point completed by this byte, if any -/
def u8step (s : U8) (b : Nat) : Except Err (U8 × Option Nat) :=
  if s.need = 0 then
    if b < 0x80 then .ok (U8.init, some b)
    else if 0xC2 ≤ b ∧ b ≤ 0xDF then .ok (⟨1, b - 0xC0, 0x80, 0xBF⟩, none)
    else if b = 0xE0 then .ok (⟨2, 0, 0xA0, 0xBF⟩, none)
    else if b = 0xED then .ok (⟨2, 13, 0x80, 0x9F⟩, none)
    else if 0xE1 ≤ b ∧ b ≤ 0xEF then .ok (⟨2, b - 0xE0, 0x80, 0xBF⟩, none)
    else if b = 0xF0 then .ok (⟨3, 0, 0x90, 0xBF⟩, none)
    else if b = 0xF4 then .ok (⟨3, 4, 0x80, 0x8F⟩, none)
    else if 0xF1 ≤ b ∧ b ≤ 0xF3 then .ok (⟨3, b - 0xF0, 0x80, 0xBF⟩, none)
    else .error .unicodeDecode
  else if s.lo ≤ b ∧ b ≤ s.hi then
    let acc := s.acc * 64 + (b - 0x80)
    if s.need = 1 then .ok (U8.init, some acc) else .ok (⟨s.need - 1, acc, 0x80, 0xBF⟩, none)
  else .error .unicodeDecode

/-- run the decoder over a byte string from state `s` -/
def decodeFrom (s : U8) : List Nat → Except Err (U8 × Text)
  | [] => .ok (s, [])
  | b :: bs =>
    match u8step s b with
    | .error e => .error e
    | .ok (s1, o) =>
      match decodeFrom s1 bs with
      | .error e => .error e
      | .ok (s2, t) => .ok (s2, (match o with | some c => c :: t | none => t))

/-- the end-of-input check: a character may not be left unfinished -/
def finish (r : U8 × Text) : Except Err Text :=
  if r.1.need = 0 then .ok r.2 else .error .unicodeDecode

/-- `bytes.decode('utf-8')` (strict): the whole string at once -/
def decodeAll (bs : List Nat) : Except Err Text :=
  match decodeFrom U8.init bs with
  | .error e => .error e
  | .ok r => finish r

/-- `str.encode('utf-8')` of one code point -/
def encodeCP (c : Nat) : Except Err (List Nat) :=
  if c < 0x80 then .ok [c]
  else if c < 0x800 then .ok [0xC0 + c / 64, 0x80 + c % 64]
  else if 0xD800 ≤ c ∧ c ≤ 0xDFFF then .error .unicodeEncode
  else if c < 0x10000 then .ok [0xE0 + c / 4096, 0x80 + (c / 64) % 64, 0x80 + c % 64]
  else if c < 0x110000 then .ok [0xF0 + c / 262144, 0x80 + (c / 4096) % 64, 0x80 + (c / 64) % 64, 0x80 + c % 64]
  else .error .unicodeEncode

def encode : Text → Except Err (List Nat)
  | [] => .ok []
  | c :: t =>
    match encodeCP c with
    | .error e => .error e
    | .ok bs => match encode t with
      | .error e => .error e
      | .ok r => .ok (bs ++ r)

/-- a Unicode scalar value (what a Python `str` written to disk may contain) -/
def isScalar (c : Nat) : Bool := (c < 0xD800 || 0xDFFF < c) && c < 0x110000

/-! ## A.2 lines -/

def CR : Nat := 13
def LF : Nat := 10

/-- the line boundaries of `str.splitlines` -/
def isBreak (c : Nat) : Bool :=
  c == 10 || c == 13 || c == 11 || c == 12 || c == 0x1c || c == 0x1d || c == 0x1e ||
  c == 0x85 || c == 0x2028 || c == 0x2029

/-- state of the line splitter: the unfinished current line and "the previous character was
a carriage return" (a line feed directly after it belongs to the same boundary) -/
structure LS where
  cur : Text
  cr  : Bool
  deriving DecidableEq, Repr

def LS.init : LS := ⟨[], false⟩

/-- one character: new state and the line completed by it, if any -/
def lsStep (s : LS) (c : Nat) : LS × List Text :=
  if s.cr && c == LF then (⟨s.cur, false⟩, [])
  else if isBreak c then (⟨[], c == CR⟩, [s.cur])
  else (⟨s.cur ++ [c], false⟩, [])

def lsRun (s : LS) : Text → LS × List Text
  | [] => (s, [])
  | c :: t =>
    let r1 := lsStep s c
    let r2 := lsRun r1.1 t
    (r2.1, r1.2 ++ r2.2)

def lsFlush (s : LS) : List Text := if s.cur = [] then [] else [s.cur]

/-- SPEC: `str.splitlines()` — the lines of a text, without their terminators; `\r\n` is one
boundary; a final unterminated line counts, an empty tail does not. -/
def splitlines (t : Text) : List Text :=
  let r := lsRun LS.init t
  r.2 ++ lsFlush r.1

/-! ## A.3 `DelimSource.read` (split_lines branch) -/

/-- `lines[0] = pending + lines[0]` -/
def prependFirst (p : Text) : List Text → List Text
  | [] => []
  | l :: ls => (p ++ l) :: ls

def lastIs (t : Text) (p : Nat → Bool) : Bool :=
  match t.getLast? with
  | some c => p c
  | none => false

/-- the loop body of the current code for one non-empty `text`:
```
lines = text.splitlines()
if pending: lines[0] = pending + lines[0]; pending = None
if text[-1] not in '\r\n': pending = lines.pop()
yield from lines
```
(`if pending:` is false for `None` and for `''`; then `pending` keeps its value.) -/
def delimCurStep (pending : Option Text) (text : Text) : Option Text × List Text :=
  let lines := splitlines text
  let truthy := match pending with | some (_ :: _) => true | _ => false
  let lines1 := if truthy then prependFirst (pending.getD []) lines else lines
  let pending1 := if truthy then none else pending
  if lastIs text (fun c => c == CR || c == LF) then (pending1, lines1)
  else (lines1.getLast?, lines1.dropLast)

/-- the whole loop over the chunks (`filter(None, …)` drops empty ones) and the final
`if pending is not None: yield pending` -/
def delimCurGo (pending : Option Text) : List Text → List Text
  | [] => (match pending with | some p => [p] | none => [])
  | t :: ts =>
    if t = [] then delimCurGo pending ts
    else
      let r := delimCurStep pending t
      r.2 ++ delimCurGo r.1 ts

def delimCur (chunks : List Text) : List Text := delimCurGo none chunks

/-- state of the repaired loop -/
structure DS where
  pending : Option Text
  afterCr : Bool
  deriving DecidableEq, Repr

/-- `if after_cr and text[0] == '\n': text = text[1:]` -/
def skipLf (afterCr : Bool) (text : Text) : Text :=
  match afterCr, text with
  | true, c :: t => if c == LF then t else text
  | _, _ => text

/-- `if pending: lines[0] = pending + lines[0]` -/
def applyPending (p : Option Text) (lines : List Text) : List Text :=
  match p with
  | some q => prependFirst q lines
  | none => lines

/-- the repaired loop body (fixes/C12-delim-line-boundaries.diff):
```
if after_cr and text[0] == '\n': text = text[1:]
after_cr = False
if not text: continue
lines = text.splitlines()
if pending: lines[0] = pending + lines[0]; pending = None
if text[-1] not in LINE_BREAKS: pending = lines.pop()
after_cr = text[-1] == '\r'
yield from lines
``` -/
def delimFixStep (s : DS) (text0 : Text) : DS × List Text :=
  let text := skipLf s.afterCr text0
  if text = [] then (⟨s.pending, false⟩, [])
  else
    let lines := splitlines text
    let lines1 := applyPending s.pending lines
    if lastIs text isBreak then (⟨none, lastIs text (· == CR)⟩, lines1)
    else (⟨lines1.getLast?, false⟩, lines1.dropLast)

def delimFixGo (s : DS) : List Text → List Text
  | [] => (match s.pending with | some p => [p] | none => [])
  | t :: ts =>
    if t = [] then delimFixGo s ts
    else
      let r := delimFixStep s t
      r.2 ++ delimFixGo r.1 ts

def delimFix (chunks : List Text) : List Text := delimFixGo ⟨none, false⟩ chunks

/-- hypothesis under which the *current* loop is right: no chunk ends in one of the line
boundaries other than `\r`/`\n`, and no `\r\n` pair is cut in the middle -/
def goodCutsGo (afterCr : Bool) : List Text → Bool
  | [] => true
  | t :: ts =>
    if t = [] then goodCutsGo afterCr ts
    else !(afterCr && t.head? == some LF) &&
         !(lastIs t (fun c => isBreak c && !(c == CR || c == LF))) &&
         goodCutsGo (lastIs t (· == CR)) ts

def goodCuts (ts : List Text) : Bool := goodCutsGo false ts

/-! ## A.4 decompression and the byte pipeline of `_byte_it_` -/

/-- a streaming decompressor (`zlib.decompressobj().decompress`): fed the compressed stream in
pieces it returns the plain stream in pieces.  Only this interface is assumed; `Lawful` says that
the concatenated output does not depend on how the input was cut (trusted: zlib). -/
structure Decomp (σ : Type) where
  init : σ
  step : σ → List Nat → σ × List Nat

def Decomp.Lawful {σ} (D : Decomp σ) : Prop :=
  (∀ s, D.step s [] = (s, [])) ∧
  ∀ s a b, D.step s (a ++ b) = ((D.step (D.step s a).1 b).1, (D.step s a).2 ++ (D.step (D.step s a).1 b).2)

/-- the whole compressed string at once -/
def Decomp.all {σ} (D : Decomp σ) (bs : List Nat) : List Nat := (D.step D.init bs).2

/-- `lambda x: x` -/
def Decomp.identity : Decomp Unit := ⟨(), fun _ bs => ((), bs)⟩

def decompChunks {σ} (D : Decomp σ) (s : σ) : List (List Nat) → List (List Nat)
  | [] => []
  | c :: cs => let r := D.step s c; r.2 :: decompChunks D r.1 cs

/-- current code: every decompressed chunk is decoded on its own, strictly -/
def decodeChunksCur : List (List Nat) → Except Err (List Text)
  | [] => .ok []
  | c :: cs =>
    match decodeAll c with
    | .error e => .error e
    | .ok t => match decodeChunksCur cs with
      | .error e => .error e
      | .ok ts => .ok (t :: ts)

/-- repaired code: one incremental decoder across the chunks, `final=True` at the end -/
def decodeChunksFix (s : U8) : List (List Nat) → Except Err (List Text)
  | [] => if s.need = 0 then .ok [] else .error .unicodeDecode
  | c :: cs =>
    match decodeFrom s c with
    | .error e => .error e
    | .ok (s1, t) => match decodeChunksFix s1 cs with
      | .error e => .error e
      | .ok ts => .ok (t :: ts)

/-- `list(HttpSource._byte_it_(encoding,'utf-8',chunk,bites))` as written, for the compressed
stream cut into `cs` -/
def readCur {σ} (D : Decomp σ) (cs : List (List Nat)) : Except Err (List Text) :=
  match decodeChunksCur (decompChunks D D.init cs) with
  | .error e => .error e
  | .ok ts => .ok (delimCur ts)

/-- the same with both repairs -/
def readFix {σ} (D : Decomp σ) (cs : List (List Nat)) : Except Err (List Text) :=
  match decodeChunksFix U8.init (decompChunks D D.init cs) with
  | .error e => .error e
  | .ok ts => .ok (delimFix ts)

/-- SPEC of delivery independence: the lines of the whole text -/
def readWhole {σ} (D : Decomp σ) (bs : List Nat) : Except Err (List Text) :=
  match decodeAll (D.all bs) with
  | .error e => .error e
  | .ok t => .ok (splitlines t)

/-- `b.read(size)` repeatedly: cut into pieces of `size` (the last one may be shorter) -/
def chunksOf (size : Nat) (bs : List Nat) : List (List Nat) :=
  if size = 0 then [bs] else go size bs.length bs
where
  go (size : Nat) : Nat → List Nat → List (List Nat)
    | 0, _ => []
    | fuel + 1, bs => if bs = [] then [] else bs.take size :: go size fuel (bs.drop size)

/-! ## B. DiskSink / DiskSource -/

/-- `DiskSink._get_batch`/`_unfinished`: with `batch = none` one batch holds everything; with
`batch = some n` batches of `n` lines are taken while the last one was full (so a multiple of
`n` lines ends with an empty batch, which for `.gz` is an empty gzip member). -/
def batches (batch : Option Nat) (lines : List Text) : List (List Text) :=
  match batch with
  | none => [lines]
  | some 0 => [lines]
  | some n => go n (lines.length + 1) lines
where
  go (n : Nat) : Nat → List Text → List (List Text)
    | 0, _ => []
    | fuel + 1, ls =>
      let b := ls.take n
      if b.length = n then b :: go n fuel (ls.drop n) else [b]

/-- bytes written for one batch: `(line + '\n').encode('utf-8')` per line -/
def encodeLines : List Text → Except Err (List Nat)
  | [] => .ok []
  | l :: ls =>
    match encode (l ++ [LF]) with
    | .error e => .error e
    | .ok bs => match encodeLines ls with
      | .error e => .error e
      | .ok r => .ok (bs ++ r)

/-- the byte content of each batch (for a plain file they are appended; for `.gz` each batch is
one gzip member) -/
def diskWriteParts (batch : Option Nat) (lines : List Text) : Except Err (List (List Nat)) :=
  go (batches batch lines)
where
  go : List (List Text) → Except Err (List (List Nat))
    | [] => .ok []
    | b :: bs => match encodeLines b with
      | .error e => .error e
      | .ok x => match go bs with
        | .error e => .error e
        | .ok r => .ok (x :: r)

/-- text-mode reading with `newline=None`: `\r\n` and lone `\r` become `\n` -/
def universalNlGo (afterCr : Bool) : Text → Text
  | [] => []
  | c :: t =>
    if afterCr && c == LF then universalNlGo false t
    else if c == CR then LF :: universalNlGo true t
    else c :: universalNlGo false t

def universalNl (t : Text) : Text := universalNlGo false t

/-- `f.readline()` until `''`: pieces ending in `\n`, plus an unterminated tail -/
def readlinesGo (cur : Text) : Text → List Text
  | [] => if cur = [] then [] else [cur]
  | c :: t => if c == LF then (cur ++ [c]) :: readlinesGo [] t else readlinesGo (cur ++ [c]) t

/-- `line.rstrip('\r\n')` -/
def rstripNl (t : Text) : Text :=
  (t.reverse.dropWhile (fun c => c == CR || c == LF)).reverse

/-- `list(DiskSource(path).read())` on the plain byte content -/
def diskRead (bs : List Nat) : Except Err (List Text) :=
  match decodeAll bs with
  | .error e => .error e
  | .ok t => .ok ((readlinesGo [] (universalNl t)).map rstripNl)

/-- lines that can be framed by a line terminator: none inside -/
def noNl (l : Text) : Bool := l.all (fun c => !(c == CR || c == LF))


/-! ## C.1 Python's `csv.reader` (Modules/_csv.c, `parse_process_char`; strict=False, QUOTE_MINIMAL) -/

inductive CsvSt where
  | startRecord | startField | escapedChar | inField | inQuoted | escInQuoted | quoteInQuoted
  | eatCrnl | afterEscCrnl
  deriving DecidableEq, Repr

structure Dialect where
  delim : Nat
  quote : Option Nat
  esc : Option Nat
  doublequote : Bool
  skipInit : Bool
  deriving DecidableEq, Repr

/-- reader state: automaton state, the field buffer, the fields of the record so far -/
structure CsvR where
  st : CsvSt
  field : Text
  fields : List Text
  deriving DecidableEq, Repr

def CsvR.reset : CsvR := ⟨.startRecord, [], []⟩

def isNl (c : Nat) : Bool := c == 10 || c == 13

/-- `parse_save_field` then go to `st` -/
def saveField (r : CsvR) (st : CsvSt) : CsvR := ⟨st, [], r.fields ++ [r.field]⟩
/-- `parse_add_char` then go to `st` -/
def addChar (r : CsvR) (c : Nat) (st : CsvSt) : CsvR := ⟨st, r.field ++ [c], r.fields⟩
def goto (r : CsvR) (st : CsvSt) : CsvR := ⟨st, r.field, r.fields⟩

/-- `case START_FIELD` (also reached by fall-through from START_RECORD); `none` is the EOL
pseudo character fed after each line -/
def csvStartField (d : Dialect) (r : CsvR) : Option Nat → CsvR
  | none => saveField r .startRecord
  | some c =>
    if isNl c then saveField r .eatCrnl
    else if d.quote = some c then goto r .inQuoted
    else if d.esc = some c then goto r .escapedChar
    else if c = 32 ∧ d.skipInit = true then goto r .startField
    else if c = d.delim then saveField r .startField
    else addChar r c .inField

/-- `case IN_FIELD` -/
def csvInField (d : Dialect) (r : CsvR) : Option Nat → CsvR
  | none => saveField r .startRecord
  | some c =>
    if isNl c then saveField r .eatCrnl
    else if d.esc = some c then goto r .escapedChar
    else if c = d.delim then saveField r .startField
    else addChar r c .inField

def csvChar (d : Dialect) (r : CsvR) (c : Option Nat) : Except Err CsvR :=
  match r.st with
  | .startRecord =>
    match c with
    | none => .ok r
    | some ch => if isNl ch then .ok (goto r .eatCrnl) else .ok (csvStartField d r c)
  | .startField => .ok (csvStartField d r c)
  | .escapedChar =>
    match c with
    | none => .ok (addChar r 10 .inField)
    | some ch => if isNl ch then .ok (addChar r ch .afterEscCrnl) else .ok (addChar r ch .inField)
  | .afterEscCrnl =>
    match c with
    | none => .ok r
    | some _ => .ok (csvInField d r c)
  | .inField => .ok (csvInField d r c)
  | .inQuoted =>
    match c with
    | none => .ok r
    | some ch =>
      if d.esc = some ch then .ok (goto r .escInQuoted)
      else if d.quote = some ch then .ok (goto r (if d.doublequote then .quoteInQuoted else .inField))
      else .ok (addChar r ch .inQuoted)
  | .escInQuoted => .ok (addChar r (c.getD 10) .inQuoted)
  | .quoteInQuoted =>
    match c with
    | none => .ok (saveField r .startRecord)
    | some ch =>
      if d.quote = some ch then .ok (addChar r ch .inQuoted)
      else if ch = d.delim then .ok (saveField r .startField)
      else if isNl ch then .ok (saveField r .eatCrnl)
      else .ok (addChar r ch .inField)
  | .eatCrnl =>
    match c with
    | none => .ok (goto r .startRecord)
    | some ch => if isNl ch then .ok r else .error .csvError

/-- the characters of (part of) a line -/
def csvFeed (d : Dialect) (r : CsvR) : Text → Except Err CsvR
  | [] => .ok r
  | c :: t => match csvChar d r (some c) with
    | .error e => .error e
    | .ok r1 => csvFeed d r1 t

/-- one line from the input iterator: its characters, then EOL -/
def csvLine (d : Dialect) (r : CsvR) (l : Text) : Except Err CsvR :=
  match csvFeed d r l with
  | .error e => .error e
  | .ok r1 => csvChar d r1 none

/-- `list(csv.reader(lines, **dialect))`: a record ends when the state is START_RECORD after a
line; at the end of the input an unfinished record is returned if it has a non-empty field
buffer or is inside quotes -/
def csvRecords (d : Dialect) (r : CsvR) : List Text → Except Err (List (List Text))
  | [] => if r.field ≠ [] ∨ r.st = .inQuoted then .ok [r.fields ++ [r.field]] else .ok []
  | l :: ls =>
    match csvLine d r l with
    | .error e => .error e
    | .ok r1 =>
      if r1.st = .startRecord then
        match csvRecords d CsvR.reset ls with
        | .error e => .error e
        | .ok rs => .ok (r1.fields :: rs)
      else csvRecords d r1 ls

/-- Python `str.isspace` / the characters `str.strip()` removes -/
def isPySpace (c : Nat) : Bool :=
  (9 ≤ c && c ≤ 13) || (28 ≤ c && c ≤ 32) || c == 133 || c == 160 || c == 5760 ||
  (8192 ≤ c && c ≤ 8202) || c == 8232 || c == 8233 || c == 8239 || c == 8287 || c == 12288

def strip (t : Text) : Text := ((t.dropWhile isPySpace).reverse.dropWhile isPySpace).reverse

/-- coba's default csv dialect (`csv.excel`) with a chosen delimiter -/
def excel (delim : Nat) : Dialect := ⟨delim, some 34, none, true, false⟩

/-- `CsvReader(has_header, **dialect).filter(lines)` as written: lines are stripped, empty ones
dropped, the first record is taken with `next` (StopIteration when there is none) -/
def csvReaderCur (d : Dialect) (hasHeader : Bool) (lines : List Text) :
    Except Err (Option (List Text) × List (List Text)) :=
  match csvRecords d CsvR.reset ((lines.map strip).filter (· ≠ [])) with
  | .error e => .error e
  | .ok [] => .error .stopIteration
  | .ok (first :: rest) => if hasHeader then .ok (some first, rest) else .ok (none, first :: rest)

/-- repaired (fixes/C12-csv-strip.diff, C12-csv-empty.diff): only line terminators are removed,
an input without records gives no rows -/
def csvReaderFix (d : Dialect) (hasHeader : Bool) (lines : List Text) :
    Except Err (Option (List Text) × List (List Text)) :=
  match csvRecords d CsvR.reset ((lines.map rstripNl).filter (· ≠ [])) with
  | .error e => .error e
  | .ok [] => .ok (none, [])
  | .ok (first :: rest) => if hasHeader then .ok (some first, rest) else .ok (none, first :: rest)

/-! ### RFC 4180 writer (spec side) -/

def DQ : Nat := 34

def csvEscape : Text → Text
  | [] => []
  | c :: t => if c = DQ then DQ :: DQ :: csvEscape t else c :: csvEscape t

/-- a field must be quoted when it holds the delimiter, a quote or a line break -/
def mustQuote (delim : Nat) (f : Text) : Bool := f.any (fun c => c == delim || c == DQ || isNl c)

/-- a field as written: quoted (writer's choice `q`, forced when `mustQuote`) or bare -/
def csvWriteField (delim : Nat) (x : Bool × Text) : Text :=
  if x.1 || mustQuote delim x.2 then DQ :: (csvEscape x.2 ++ [DQ]) else x.2

def csvWriteRow (delim : Nat) : List (Bool × Text) → Text
  | [] => []
  | [x] => csvWriteField delim x
  | x :: y :: xs => csvWriteField delim x ++ delim :: csvWriteRow delim (y :: xs)

/-- what an RFC 4180 writer may be asked to write as one record on one line: at least one field,
no line breaks inside fields (they cannot travel in a line), a lone empty field is quoted -/
def csvRowOk (row : List (Bool × Text)) : Bool :=
  row ≠ [] && row.all (fun x => x.2.all (fun c => !isNl c)) &&
  (match row with | [x] => x.2 ≠ [] || x.1 | _ => true)

/-! ## C.2 LibSVM / Manik -/

def splitOnGo (sep : Nat) (cur : Text) : Text → List Text
  | [] => [cur]
  | c :: t => if c = sep then cur :: splitOnGo sep [] t else splitOnGo sep (cur ++ [c]) t

/-- `s.split(sep)` for a one-character separator -/
def splitOn (sep : Nat) (t : Text) : List Text := splitOnGo sep [] t

structure SvmRow where
  labels : List Text
  feats : List (Text × Text)
  deriving DecidableEq, Repr

def SP : Nat := 32
def COLON : Nat := 58
def COMMA : Nat := 44

/-- `k,v = i.split(":")` for each item (ValueError unless exactly two pieces) -/
def svmFeats : List Text → Except Err (List (Text × Text))
  | [] => .ok []
  | i :: is =>
    match splitOn COLON i with
    | [k, v] => (match svmFeats is with | .error e => .error e | .ok r => .ok ((k, v) :: r))
    | _ => .error .valueError

/-- one non-empty line of `LibsvmReader.filter`; `none` = the line is skipped (no label) -/
def svmLine (line : Text) : Except Err (Option SvmRow) :=
  match splitOn SP (strip line) with
  | [] => .ok none
  | first :: items =>
    if first = [] ∨ COLON ∈ first then .ok none
    else match svmFeats items with
      | .error e => .error e
      | .ok fs => .ok (some ⟨splitOn COMMA first, fs⟩)

def libsvmRead : List Text → Except Err (List SvmRow)
  | [] => .ok []
  | l :: ls =>
    if l = [] then libsvmRead ls
    else match svmLine l with
      | .error e => .error e
      | .ok o => match libsvmRead ls with
        | .error e => .error e
        | .ok rs => .ok (match o with | some r => r :: rs | none => rs)

/-- `ManikReader`: the first line is metadata -/
def manikRead (lines : List Text) : Except Err (List SvmRow) := libsvmRead (lines.drop 1)

def joinWith (sep : Nat) : List Text → Text
  | [] => []
  | [x] => x
  | x :: y :: xs => x ++ sep :: joinWith sep (y :: xs)

def svmWriteFeats : List (Text × Text) → Text
  | [] => []
  | (k, v) :: fs => SP :: (k ++ COLON :: v) ++ svmWriteFeats fs

/-- `label1,label2 k:v k:v …` -/
def svmWriteRow (r : SvmRow) : Text := joinWith COMMA r.labels ++ svmWriteFeats r.feats

def tokenOk (bad : List Nat) (t : Text) : Bool := t.all (fun c => !isPySpace c && !bad.contains c)

/-- rows a LibSVM writer produces: at least one label, the label group not empty, tokens without
white space, labels without `,`/`:`, indices and values without `:` -/
def svmRowOk (r : SvmRow) : Bool :=
  r.labels ≠ [] && joinWith COMMA r.labels ≠ [] &&
  r.labels.all (tokenOk [COMMA, COLON]) &&
  r.feats.all (fun kv => tokenOk [COLON] kv.1 && tokenOk [COLON] kv.2)


/-! ## C.3 ARFF dense data lines: `ArffLineReader._dense` / `_dense_simple` (coba/pipes/readers.py)

The fallback parser `_dense_advanced` is not modelled (`Err.cobaException` stands for "left the
modelled part": the harness compares only lines the model parses on the simple path). -/

def SQ : Nat := 39
def BS : Nat := 92
def TAB : Nat := 9

/-- the csv dialect ArffLineReader uses: `skipinitialspace=True, escapechar='\\', doublequote=False`,
the delimiter and quote character it has settled on (csv's default `"` while none was seen) -/
def arffDialect (delim : Nat) (qc : Option Nat) : Dialect := ⟨delim, some (qc.getD DQ), some BS, false, true⟩

/-- `next(csv.reader([line], **dialect))` -/
def csvFirst (d : Dialect) (line : Text) : Except Err (List Text) :=
  match csvRecords d CsvR.reset [line] with
  | .error e => .error e
  | .ok [] => .error .stopIteration
  | .ok (r :: _) => .ok r

/-- state of an ArffLineReader for dense data -/
structure ALR where
  started : Bool          -- `_dense` (first line) has run
  advanced : Bool         -- the reader has switched to `_dense_advanced`
  qc : Option Nat         -- `self._quotechar`
  delim : Nat
  deriving DecidableEq, Repr

def ALR.init : ALR := ⟨false, false, none, COMMA⟩

/-- the quote-character bookkeeping of `_dense_simple` (the second test reads the local `quotechar`
as the first test left it — since the repair of C13-F13 the first branch updates the local too).
`none` = switch to the fallback parser. -/
def simpleQuote (qc : Option Nat) (line : Text) : Option (Option Nat) :=
  let hasDq := line.contains DQ
  let hasSq := line.contains SQ
  let afterDq : Option (Option Nat) :=
    if hasDq then (if qc = some DQ then some qc else if qc = none then some (some DQ) else none) else some qc
  match afterDq with
  | none => none
  | some q1 =>
    if hasSq then (if q1 = some SQ then some q1 else if q1 = none then some (some SQ) else none) else some q1

/-- `_dense_simple` -/
def arffSimple (n : Nat) (s : ALR) (line : Text) : Except Err (ALR × List Text) :=
  match simpleQuote s.qc line with
  | none => .error .cobaException            -- fallback parser: not modelled
  | some qc1 =>
    match csvFirst (arffDialect s.delim qc1) line with
    | .error e => .error e
    | .ok r => if r.length = n then .ok ({ s with qc := qc1 }, r) else .error .cobaException

/-- `_dense` (first data line): choose quote character and delimiter, then parse -/
def arffFirst (n : Nat) (line : Text) : Except Err (ALR × List Text) :=
  let hasDq := line.contains DQ
  let hasSq := line.contains SQ
  if hasDq && hasSq then .error .cobaException          -- fallback parser: not modelled
  else
    let qc : Option Nat := if hasDq then some DQ else if hasSq then some SQ else none
    match csvFirst (arffDialect COMMA qc) line with
    | .error e => .error e
    | .ok r =>
      if r.length = n then arffSimple n ⟨true, false, qc, COMMA⟩ line
      else match csvFirst (arffDialect TAB qc) line with
        | .error e => .error e
        | .ok r2 => if r2.length = n then arffSimple n ⟨true, false, qc, TAB⟩ line else .error .cobaException

def arffLineStep (n : Nat) (s : ALR) (line : Text) : Except Err (ALR × List Text) :=
  if s.started then arffSimple n s line else arffFirst n line

/-- all data lines of a dense file through one ArffLineReader -/
def arffLines (n : Nat) (s : ALR) : List Text → Except Err (List (List Text))
  | [] => .ok []
  | l :: ls =>
    match arffLineStep n s l with
    | .error e => .error e
    | .ok (s1, r) => match arffLines n s1 ls with
      | .error e => .error e
      | .ok rs => .ok (r :: rs)

/-! ### the Weka / OpenML writer for dense data (spec side) -/

/-- backslash-escape: the quote character and the backslash always, other characters at the
writer's discretion (`also`; Weka escapes `"` `'` `%`, liac-arff only quotes and backslash) -/
def arffEscape (q : Nat) (also : Nat → Bool) : Text → Text
  | [] => []
  | c :: t => if c = q ∨ c = BS ∨ also c = true then BS :: c :: arffEscape q also t else c :: arffEscape q also t

/-- a value may be written bare when it holds no delimiter, quote characters, backslash, line
break, does not start with a blank (blanks after a delimiter are skipped) -/
def bareOk (v : Text) : Bool :=
  v.all (fun c => !(c == COMMA || c == SQ || c == DQ || c == BS || isNl c)) &&
  (match v with | c :: _ => c != 32 | [] => true)

/-- one value as written: quoted with `q` (writer's choice, forced unless `bareOk`) or bare -/
def arffWriteTok (q : Nat) (also : Nat → Bool) (x : Bool × Text) : Text :=
  if x.1 || !bareOk x.2 then q :: (arffEscape q also x.2 ++ [q]) else x.2

/-- a row: values separated by a comma and `pad` blanks -/
def arffWriteRow (q : Nat) (also : Nat → Bool) (pad : Nat) : List (Bool × Text) → Text
  | [] => []
  | [x] => arffWriteTok q also x
  | x :: y :: xs => arffWriteTok q also x ++ COMMA :: (List.replicate pad 32 ++ arffWriteRow q also pad (y :: xs))

/-- hypotheses on a row: at least one value, a lone empty value is quoted, and the *other* quote
character occurs in no value (it would be written escaped and send coba to its fallback parser) -/
def arffRowOk (q : Nat) (row : List (Bool × Text)) : Bool :=
  row ≠ [] && row.all (fun x => x.2.all (fun c => !(isNl c) && !((c == SQ || c == DQ) && c != q))) &&
  (match row with | [x] => x.2 ≠ [] || x.1 | _ => true)


/-! ## D. the whole ARFF reader: attribute header, data section, rows (coba/pipes/readers.py)

`ArffReader.filter` = strip/drop blank lines, split at `@data`, `ArffAttrReader` on the
`@attr…` lines, detect dense/sparse on the first non-comment data line, `ArffDataReader`
(comment lines, `missing` flag), `ArffLineReader` per line, encoders applied by
`LazyDense`/`LazySparse` when the row is materialised. -/

def lstrip (t : Text) : Text := t.dropWhile isPySpace
def rstrip (t : Text) : Text := (t.reverse.dropWhile isPySpace).reverse

/-- `str.lower()` on the ASCII range (the keywords and type names are ASCII; other characters
are left alone — CPython's full Unicode lowering is not modelled) -/
def lowerAscii (t : Text) : Text := t.map (fun c => if 65 ≤ c ∧ c ≤ 90 then c + 32 else c)

def isQuoteCh (c : Nat) : Bool := c == DQ || c == SQ

/-! ### D.1 `ArffAttrReader._split` -/

/-- `re.compile("(\s+)").split(line)`: text pieces and the white-space runs between them, alternating -/
def splitWsGo (cur : Text) (inWs : Bool) : Text → List Text
  | [] => [cur]
  | c :: t =>
    if isPySpace c then
      (if inWs then splitWsGo (cur ++ [c]) true t else cur :: splitWsGo [c] true t)
    else
      (if inWs then cur :: splitWsGo [c] false t else splitWsGo (cur ++ [c]) false t)

def splitWs (t : Text) : List Text := splitWsGo [] false t

/-- `re.compile("(,)").split(line)`: text pieces and the commas between them -/
def splitCommaGo (cur : Text) : Text → List Text
  | [] => [cur]
  | c :: t => if c = COMMA then cur :: [COMMA] :: splitCommaGo [] t else splitCommaGo (cur ++ [c]) t

def splitComma (t : Text) : List Text := splitCommaGo [] t

/-- which of the two patterns `_split` was called with -/
inductive Pat where | ws | comma
  deriving DecidableEq, Repr

def Pat.pieces : Pat → Text → List Text
  | .ws, t => splitWs t
  | .comma, t => splitComma t

/-- `pattern.match(item)` (at the start of the item) -/
def Pat.matchStart : Pat → Text → Bool
  | .ws, t => (match t with | c :: _ => isPySpace c | [] => false)
  | .comma, t => (match t with | c :: _ => c == COMMA | [] => false)

inductive Settle where
  | more                 -- the `while` condition holds: `item += next(items)`
  | done (v : Text)      -- the item is complete: this is what is yielded
  | indexError           -- `item.rstrip()[-2]` on a one-character string
  deriving DecidableEq, Repr

/-- the `while item.rstrip()[-1] != q or item.rstrip()[-2]=="\\"` test for a quoted item and,
when it ends, `item.strip().rstrip()[1:-1].replace("\\",'')` -/
def settle (item : Text) : Settle :=
  let r := rstrip item
  match item.head?, r.getLast? with
  | some q, some l =>
    if l ≠ q then .more
    else if r.length < 2 then .indexError
    else if r.dropLast.getLast? = some BS then .more
    else .done ((r.tail.dropLast).filter (· != BS))
  | _, _ => .more

/-- the generator `_split(line, pattern, n)` as a machine that consumes one piece per step;
`acc = some item` while a quoted item is being glued together.  Running out of pieces is the
swallowed `StopIteration`: the generator just ends. -/
def splitLoop (P : Pat) (n : Option Nat) : Nat → Option Text → List Text → Except Err (List Text)
  | _, _, [] => .ok []
  | count, none, p :: ps =>
    let item := lstrip p
    if item = [] ∨ P.matchStart item = true then splitLoop P n count none ps
    else if n = some (count + 1) then .ok [strip (item ++ ps.flatten)]
    else if (match item with | c :: _ => isQuoteCh c | [] => false) then
      match settle item with
      | .more => splitLoop P n (count + 1) (some item) ps
      | .indexError => .error .indexError
      | .done v => (match splitLoop P n (count + 1) none ps with | .error e => .error e | .ok r => .ok (v :: r))
    else
      match splitLoop P n (count + 1) none ps with
      | .error e => .error e
      | .ok r => .ok (strip item :: r)
  | count, some item, p :: ps =>
    let item1 := item ++ p
    match settle item1 with
    | .more => splitLoop P n count (some item1) ps
    | .indexError => .error .indexError
    | .done v => (match splitLoop P n count none ps with | .error e => .error e | .ok r => .ok (v :: r))

def arffSplit (P : Pat) (n : Option Nat) (line : Text) : Except Err (List Text) :=
  splitLoop P n 0 none (P.pieces line)

/-! ### D.2 encoders -/

/-- what `_encoder` returns -/
inductive Enc where
  | numeric                       -- `float`
  | str                           -- `lambda x: None if x == "?" else x`
  | nominal (levels : List Text)  -- `CategoricalDict(...).__getitem__`, the levels in `Categorical.levels` order
  deriving DecidableEq, Repr

/-- a parsed cell -/
inductive Cell where
  | missing
  | num (tok : Text)              -- `float(tok)` (the conversion itself is CPython's)
  | str (s : Text)
  | cat (s : Text) (levels : List Text)
  deriving DecidableEq, Repr

def textLe : Text → Text → Bool
  | [], _ => true
  | _ :: _, [] => false
  | a :: s, b :: t => a < b || (a == b && textLe s t)

def insertSorted (x : Text) : List Text → List Text
  | [] => [x]
  | y :: ys => if textLe x y then x :: y :: ys else y :: insertSorted x ys

def dedup : List Text → List Text
  | [] => []
  | x :: xs => if xs.contains x then dedup xs else x :: dedup xs

/-- `sorted(set(values))` -/
def sortedSet (vs : List Text) : List Text := (dedup vs).foldr insertSorted []

/-- `CategoricalEncoder(values)`: the level order is the given one unless a value repeats, then
`sorted(set(values))`; no values at all → `CategoricalDict(None)` raises TypeError -/
def catLevels (vs : List Text) : Except Err (List Text) :=
  if vs = [] then .error .typeError
  else if (dedup vs).length ≠ vs.length then .ok (sortedSet vs) else .ok vs

def startsWith (p t : Text) : Bool := t.take p.length == p

def kwNumeric : List Text := [[110,117,109,101,114,105,99], [105,110,116,101,103,101,114], [114,101,97,108]]
def kwString : List Text := [[115,116,114,105,110,103], [100,97,116,101], [114,101,108,97,116,105,111,110,97,108]]
def LBRACE : Nat := 123
def RBRACE : Nat := 125
def PCT : Nat := 37
def QM : Nat := 63
def ZERO : Text := [48]

/-- `ArffAttrReader._encoder(encoding)` -/
def arffEncoder (isDense : Bool) (encoding : Text) : Except Err Enc :=
  let low := lowerAscii encoding
  if kwNumeric.contains low then .ok .numeric
  else if kwString.any (fun k => startsWith k low) then .ok .str
  else if encoding.head? = some LBRACE then
    match arffSplit .comma none encoding.tail.dropLast with
    | .error e => .error e
    | .ok cats =>
      match catLevels (if isDense then cats else ZERO :: cats) with
      | .error e => .error e
      | .ok lv => .ok (.nominal lv)
  else .error .cobaException

def kwAttribute : Text := [64,97,116,116,114,105,98,117,116,101]
def kwAttr : Text := [64,97,116,116,114]
def kwData : Text := [64,100,97,116,97]

/-- `ArffAttrReader.filter(lines)`: `header, encoding = tuple(_split(line[11:], r_space, n=2))`
(ValueError unless exactly two), duplicate names rejected -/
def arffAttrs (isDense : Bool) (seen : List Text) : List Text → Except Err (List (Text × Enc))
  | [] => .ok []
  | line :: ls =>
    if lowerAscii (line.take 10) = kwAttribute then
      match arffSplit .ws (some 2) (line.drop 11) with
      | .error e => .error e
      | .ok [header, encoding] =>
        if seen.contains header then .error .cobaException
        else match arffEncoder isDense encoding with
          | .error e => .error e
          | .ok enc => match arffAttrs isDense (header :: seen) ls with
            | .error e => .error e
            | .ok r => .ok ((header, enc) :: r)
      | .ok _ => .error .valueError
    else arffAttrs isDense seen ls

/-! ### D.3 data section -/

def hasSub (p t : Text) : Bool :=
  match t with
  | [] => p.isEmpty
  | _ :: t' => startsWith p t || hasSub p t'

/-- `line.translate(_trans)`: blanks, tab, newline, CR, VT, FF removed -/
def compact (t : Text) : Text := t.filter (fun c => !(c == 32 || c == 9 || c == 10 || c == 13 || c == 11 || c == 12))

def endsWith (p t : Text) : Bool := startsWith p.reverse t.reverse

/-- `ArffDataReader._dense`: the `missing` flag of a line (repaired: `compact == '?'`) -/
def denseMissing (line : Text) : Bool :=
  if !line.contains QM then false
  else if line.take 2 = [QM, COMMA] then true
  else if endsWith [COMMA, QM] line then true
  else
    let c := compact line
    c = [QM] || c.take 2 = [QM, COMMA] || hasSub [COMMA, QM, COMMA] c || endsWith [COMMA, QM] c

/-- `ArffDataReader._sparse` -/
def sparseMissing (line : Text) : Bool := hasSub [32, QM, COMMA] line || endsWith [32, QM, RBRACE] line

/-- the white-space / comma tokenizer of `_sparse`: `re.split('\s*,\s*|\s+', text)`.
state 0 = in a token, 1 = in a separator (white space only so far), 2 = in a separator after its comma -/
def sparseSplitGo (cur : Text) : Nat → Text → List Text
  | st, [] => if st = 0 then [cur] else [[]]
  | st, c :: t =>
    if isPySpace c then (if st = 0 then cur :: sparseSplitGo [] 1 t else sparseSplitGo [] st t)
    else if c = COMMA then
      (if st = 0 then cur :: sparseSplitGo [] 2 t else if st = 1 then sparseSplitGo [] 2 t else [] :: sparseSplitGo [] 2 t)
    else (if st = 0 then sparseSplitGo (cur ++ [c]) 0 t else sparseSplitGo [c] 0 t)

def sparseSplit (t : Text) : List Text := sparseSplitGo [] 0 t

/-- `line.strip("} {")` -/
def stripBraces (t : Text) : Text :=
  let p := fun c => c == RBRACE || c == 32 || c == LBRACE
  ((t.dropWhile p).reverse.dropWhile p).reverse

def isDigit (c : Nat) : Bool := 48 ≤ c && c ≤ 57

/-- `int(tok)` for ASCII decimal literals with optional sign and surrounding white space
(underscores and non-ASCII digits, which CPython also accepts, are not modelled) -/
def parseInt (tok : Text) : Option Int :=
  let t := strip tok
  let neg := t.head? = some 45
  let ds := if t.head? = some 45 ∨ t.head? = some 43 then t.tail else t
  if ds = [] ∨ !ds.all isDigit then none
  else
    let v : Nat := ds.foldl (fun a c => a * 10 + (c - 48)) 0
    some (if neg then -(v : Int) else (v : Int))

def evens : List Text → List Text
  | [] => []
  | [x] => [x]
  | x :: _ :: r => x :: evens r

def odds : List Text → List Text
  | [] => []
  | [_] => []
  | _ :: y :: r => y :: odds r

def parseKeys : List Text → Except Err (List Int)
  | [] => .ok []
  | k :: ks => match parseInt k with
    | none => .error .valueError
    | some i => match parseKeys ks with
      | .error e => .error e
      | .ok r => .ok (i :: r)

/-- `dict(zip(keys, vals))`: insertion order of first occurrence, the last value wins -/
def dictOf : List (Int × Text) → List (Int × Text)
  | [] => []
  | (k, v) :: r =>
    let d := dictOf r
    match d.find? (·.1 = k) with
    | some kv => (k, kv.2) :: d.filter (·.1 ≠ k)
    | none => (k, v) :: d

/-- `ArffLineReader._sparse(line)` -/
def arffSparseLine (n : Nat) (line : Text) : Except Err (List (Int × Text)) :=
  let kv := sparseSplit (stripBraces line)
  if kv = [[]] then .ok []
  else match parseKeys (evens kv) with
    | .error e => .error e
    | .ok keys =>
      let d := dictOf (keys.zip (odds kv))
      if d.any (fun p => p.1 < 0 || (n : Int) ≤ p.1) then .error .cobaException else .ok d

/-! ### D.4 `_dense_advanced` (the fallback parser) and the complete dense line reader -/

def splitOnList (sep : Nat) (t : Text) : List Text := splitOn sep t

/-- the `while d_line:` loop; `acc = some item` while a quoted item is being glued (with `","`) -/
def advLoop : Option Text → List Text → Except Err (List Text)
  | none, [] => .ok []
  | some _, [] => .error .indexError                -- `pop from an empty deque`
  | none, p :: ps =>
    let item := lstrip p
    match item with
    | [] => .error .indexError                      -- `item[0]` on an empty string
    | c :: _ =>
      if isQuoteCh c then
        let r := rstrip item
        if r.getLast? ≠ some c then advLoop (some item) ps
        else if r.length < 2 then .error .indexError
        else if r.dropLast.getLast? = some BS then advLoop (some item) ps
        else (match advLoop none ps with | .error e => .error e | .ok rest => .ok (((strip item).tail.dropLast).filter (· != BS) :: rest))
      else (match advLoop none ps with | .error e => .error e | .ok rest => .ok (item.filter (· != BS) :: rest))
  | some item, p :: ps =>
    let item1 := item ++ COMMA :: p
    let r := rstrip item1
    if r.getLast? ≠ item1.head? then advLoop (some item1) ps
    else if r.length < 2 then .error .indexError
    else if r.dropLast.getLast? = some BS then advLoop (some item1) ps
    else (match advLoop none ps with | .error e => .error e | .ok rest => .ok (((strip item1).tail.dropLast).filter (· != BS) :: rest))

/-- full state of a dense ArffLineReader -/
structure ALRF where
  started : Bool
  advanced : Bool
  qc : Option Nat
  delim : Nat
  fallback : Option Nat      -- `_fallback_delim`
  deriving DecidableEq, Repr

def ALRF.init : ALRF := ⟨false, false, none, COMMA, none⟩

def arffAdvanced (n : Nat) (s : ALRF) (line : Text) : Except Err (ALRF × List Text) :=
  let fd := match s.fallback with
    | some d => d
    | none => if (splitOn COMMA line).length > (splitOn TAB line).length then COMMA else TAB
  match advLoop none (splitOn fd line) with
  | .error e => .error e
  | .ok parsed =>
    if parsed.length = n then .ok ({ s with advanced := true, fallback := some fd }, parsed) else .error .cobaException

/-- `_dense_simple` with the switch to the fallback parser -/
def arffSimpleF (n : Nat) (s : ALRF) (line : Text) : Except Err (ALRF × List Text) :=
  match simpleQuote s.qc line with
  | none => arffAdvanced n s line            -- only reached with a quote character already fixed: nothing was stored
  | some qc1 =>
    match csvFirst (arffDialect s.delim qc1) line with
    | .error e => .error e
    | .ok r => if r.length = n then .ok ({ s with qc := qc1 }, r) else .error .cobaException

def arffFirstF (n : Nat) (line : Text) : Except Err (ALRF × List Text) :=
  let hasDq := line.contains DQ
  let hasSq := line.contains SQ
  let both := hasDq && hasSq
  let qc : Option Nat := if both then none else if hasDq then some DQ else if hasSq then some SQ else none
  match csvFirst (arffDialect COMMA qc) line with
  | .error e => .error e
  | .ok r =>
    if r.length = n then
      (if both then arffAdvanced n ⟨true, true, qc, COMMA, none⟩ line else arffSimpleF n ⟨true, false, qc, COMMA, none⟩ line)
    else match csvFirst (arffDialect TAB qc) line with
      | .error e => .error e
      | .ok r2 =>
        if r2.length = n then
          (if both then arffAdvanced n ⟨true, true, qc, TAB, none⟩ line else arffSimpleF n ⟨true, false, qc, TAB, none⟩ line)
        else arffAdvanced n ⟨true, true, qc, COMMA, none⟩ line

def arffLineStepF (n : Nat) (s : ALRF) (line : Text) : Except Err (ALRF × List Text) :=
  if s.advanced then arffAdvanced n s line
  else if s.started then arffSimpleF n s line
  else arffFirstF n line

/-! ### D.5 rows -/

/-- `float(tok)` succeeds: decimal literal with optional sign, fraction, exponent, `inf`/`nan`,
surrounding white space (underscores are not modelled) -/
def isFloatLit (tok : Text) : Bool :=
  let t := lowerAscii (strip tok)
  let t := match t with | 45 :: r => r | 43 :: r => r | _ => t
  let special : List Text := [[105,110,102], [105,110,102,105,110,105,116,121], [110,97,110]]
  if special.contains t then true
  else
    let intPart := t.takeWhile isDigit
    let r1 := t.dropWhile isDigit
    let (frac, r2) := match r1 with
      | 46 :: r => (r.takeWhile isDigit, r.dropWhile isDigit)
      | _ => ([], r1)
    let hasDot := r1.head? = some 46
    let mant := intPart ≠ [] ∨ (hasDot ∧ frac ≠ [])
    let expOk := match r2 with
      | [] => true
      | 101 :: r =>
        let r := match r with | 45 :: x => x | 43 :: x => x | _ => r
        r ≠ [] && r.all isDigit
      | _ => false
    decide mant && expOk

/-- an encoder applied to a raw value the way `LazyDense`/`LazySparse` do: when the encoder
raises, `'?'` and `''` become None, anything else re-raises -/
def encodeCell (e : Enc) (v : Text) : Except Err Cell :=
  match e with
  | .numeric => if isFloatLit v then .ok (.num v) else if v = [QM] ∨ v = [] then .ok .missing else .error .valueError
  | .str => if v = [QM] then .ok .missing else .ok (.str v)
  | .nominal lv => if lv.contains v then .ok (.cat v lv) else if v = [QM] ∨ v = [] then .ok .missing else .error .cobaException

def encodeRow : List Enc → List Text → Except Err (List Cell)
  | e :: es, v :: vs => (match encodeCell e v with
    | .error er => .error er
    | .ok c => match encodeRow es vs with | .error er => .error er | .ok r => .ok (c :: r))
  | _, _ => .ok []

structure DenseRow where
  cells : List Cell
  missing : Bool
  deriving DecidableEq, Repr

structure SparseRow where
  items : List (Text × Cell)     -- column name ↦ value, for the written keys and the "not sparse" columns
  missing : Bool
  deriving DecidableEq, Repr

inductive ArffResult where
  | dense (names : List Text) (rows : List DenseRow)
  | sparse (names : List Text) (rows : List SparseRow)
  | empty
  deriving DecidableEq, Repr

def denseRows (encs : List Enc) (n : Nat) (s : ALRF) : List Text → Except Err (List DenseRow)
  | [] => .ok []
  | line :: ls =>
    if line.head? = some PCT then denseRows encs n s ls
    else match arffLineStepF n s line with
      | .error e => .error e
      | .ok (s1, raw) => match encodeRow encs raw with
        | .error e => .error e
        | .ok cells => match denseRows encs n s1 ls with
          | .error e => .error e
          | .ok r => .ok (⟨cells, denseMissing line⟩ :: r)

def nthD {α} (l : List α) (i : Nat) : Option α := l[i]?

/-- the columns whose encoder does not send `'0'` to 0: they appear in every sparse row -/
def notSparse (encs : List Enc) : List Nat :=
  (List.range encs.length).filter (fun i => match nthD encs i with
    | some .numeric => false
    | some .str => true
    | some (.nominal lv) => lv.contains ZERO
    | none => false)

def sparseItems (names : List Text) (encs : List Enc) : List (Int × Text) → Except Err (List (Text × Cell))
  | [] => .ok []
  | (k, v) :: r =>
    match nthD names k.toNat, nthD encs k.toNat with
    | some nm, some e => (match encodeCell e v with
      | .error er => .error er
      | .ok c => match sparseItems names encs r with | .error er => .error er | .ok rest => .ok ((nm, c) :: rest))
    | _, _ => sparseItems names encs r

def sparseRows (names : List Text) (encs : List Enc) (n : Nat) : List Text → Except Err (List SparseRow)
  | [] => .ok []
  | line :: ls =>
    if line.head? = some PCT then sparseRows names encs n ls
    else match arffSparseLine n line with
      | .error e => .error e
      | .ok raw =>
        let extra := ((notSparse encs).filter (fun (i : Nat) => !(raw.any (fun p => p.1 = (i : Int))))).map (fun (i : Nat) => ((i : Int), ZERO))
        match sparseItems names encs (raw ++ extra) with
        | .error e => .error e
        | .ok items => match sparseRows names encs n ls with
          | .error e => .error e
          | .ok r => .ok (⟨items, sparseMissing line⟩ :: r)

/-- `filter(None, map(strip, lines))` -/
def arffNormalize (lines : List Text) : List Text := (lines.map strip).filter (· ≠ [])

/-- the reader on stripped, non-empty lines -/
def arffReadN (ls : List Text) : Except Err ArffResult :=
  let head := ls.takeWhile (fun l => lowerAscii l ≠ kwData)
  let attrLines := head.filter (fun l => lowerAscii (l.take 5) = kwAttr)
  let data := (ls.dropWhile (fun l => lowerAscii l ≠ kwData)).drop 1
  let data := data.dropWhile (fun l => l.head? = some PCT)
  match data with
  | [] => .ok .empty
  | first :: _ =>
    let isDense := !(first.head? = some LBRACE) || !(first.getLast? = some RBRACE)
    match arffAttrs isDense [] attrLines with
    | .error e => .error e
    | .ok [] => .error .valueError                 -- `headers,encoders = zip(*[])`
    | .ok attrs =>
      let names := attrs.map (·.1)
      let encs := attrs.map (·.2)
      if isDense then
        match denseRows encs attrLines.length ALRF.init data with
        | .error e => .error e
        | .ok rows => .ok (.dense names rows)
      else
        match sparseRows names encs attrLines.length data with
        | .error e => .error e
        | .ok rows => .ok (.sparse names rows)

/-- `list(ArffReader().filter(lines))` with every row materialised -/
def arffRead (lines : List Text) : Except Err ArffResult := arffReadN (arffNormalize lines)


/-! ### sparse ARFF writer (spec side) -/

/-- value of a decimal index as written -/
def digitsVal (ds : Text) : Int := ((ds.foldl (fun a c => a * 10 + (c - 48)) 0 : Nat) : Int)

/-- `i v` items separated by a comma and `pad` blanks -/
def sparseWriteItems (pad : Nat) : List (Text × Text) → Text
  | [] => []
  | [(d, v)] => d ++ 32 :: v
  | (d, v) :: y :: r => d ++ 32 :: v ++ COMMA :: (List.replicate pad 32 ++ sparseWriteItems pad (y :: r))

/-- `{i v,i v,…}` -/
def sparseWriteRow (pad : Nat) (items : List (Text × Text)) : Text := LBRACE :: (sparseWriteItems pad items ++ [RBRACE])

/-- a token the sparse tokenizer leaves alone: non-empty, no white space, no comma -/
def sparseTokOk (t : Text) : Bool := t ≠ [] && t.all (fun c => !isPySpace c && c != COMMA)

/-- hypotheses on a sparse row: indices are decimal digit strings, distinct and inside `[0,n)`;
values are bare tokens (C12-F10: the reader has no quote handling) that do not end in a brace -/
def sparseRowOk (n : Nat) (items : List (Text × Text)) : Bool :=
  items.all (fun p => p.1 ≠ [] && p.1.all isDigit && sparseTokOk p.2 &&
                      (match p.2.getLast? with | some c => c != RBRACE && c != LBRACE | none => false) &&
                      digitsVal p.1 < (n : Int)) &&
  (items.map (fun p => digitsVal p.1)).Nodup


/-! ### ARFF header writer (spec side): Weka / liac-arff style -/

/-- backslash before the quote character (always) and before any further character the writer
likes (`also`; Weka: the other quote, `%`) -/
def hdrEscape (q : Nat) (also : Nat → Bool) : Text → Text
  | [] => []
  | c :: t => if c = q ∨ also c = true then BS :: c :: hdrEscape q also t else c :: hdrEscape q also t

/-- a name or nominal level as written: quoted (`x.1`) or bare -/
def hdrWriteTok (q : Nat) (also : Nat → Bool) (x : Bool × Text) : Text :=
  if x.1 then q :: (hdrEscape q also x.2 ++ [q]) else x.2

/-- `{l1,l2,…}` with `pad` blanks after each comma -/
def hdrWriteLevels (q : Nat) (also : Nat → Bool) (pad : Nat) : List (Bool × Text) → Text
  | [] => []
  | [x] => hdrWriteTok q also x
  | x :: y :: r => hdrWriteTok q also x ++ COMMA :: (List.replicate pad 32 ++ hdrWriteLevels q also pad (y :: r))

/-- what may stand in a quoted name/level for the reader to get it back (C12-F8: no backslash;
C12-F9: the text must not begin with the separator — a comma for levels, white space for both) -/
def quotedOk (isLevel : Bool) (v : Text) : Bool :=
  !v.contains BS && (match v with | c :: _ => !isPySpace c && !(isLevel && c == COMMA) | [] => true)

/-- what may be written bare: not empty, no separator inside (white space for names, comma for
levels), no white space at the ends, not starting with a quote character -/
def bareTokOk (isLevel : Bool) (v : Text) : Bool :=
  v ≠ [] && (match v with | c :: _ => !isQuoteCh c && !isPySpace c | [] => false) &&
  (match v.getLast? with | some c => !isPySpace c | none => false) &&
  (if isLevel then !v.contains COMMA else v.all (fun c => !isPySpace c))

def hdrTokOk (isLevel : Bool) (x : Bool × Text) : Bool := if x.1 then quotedOk isLevel x.2 else bareTokOk isLevel x.2


/-- the type part of an attribute line as a writer emits it -/
inductive TypeW where
  | numeric (word : Text)                               -- `numeric` / `REAL` / `Integer` …
  | string (word : Text)                                -- `string`, `date "yyyy-MM-dd"`, `relational` …
  | nominal (pad : Nat) (levels : List (Bool × Text))   -- `{l1, l2, …}`

def TypeW.text (q : Nat) (also : Nat → Bool) : TypeW → Text
  | .numeric w => w
  | .string w => w
  | .nominal pad levels => LBRACE :: (hdrWriteLevels q also pad levels ++ [RBRACE])

/-- the encoder the reader must come up with (sparse files get the extra level `'0'`) -/
def TypeW.enc (isDense : Bool) : TypeW → Enc
  | .numeric _ => .numeric
  | .string _ => .str
  | .nominal _ levels => .nominal (if isDense then levels.map (·.2) else ZERO :: levels.map (·.2))

def TypeW.ok (isDense : Bool) : TypeW → Bool
  | .numeric w => kwNumeric.contains (lowerAscii w) && strip w == w
  | .string w => !kwNumeric.contains (lowerAscii w) && kwString.any (fun k => startsWith k (lowerAscii w)) &&
                 strip w == w && w.head? != some LBRACE
  | .nominal _ levels => levels ≠ [] && levels.all (hdrTokOk true) &&
                 (if isDense then levels.map (·.2) else ZERO :: levels.map (·.2)).Nodup

/-- one attribute line: keyword (any case), one separator character, the name, white space, the type -/
structure AttrW where
  kw : Text
  sep : Nat
  name : Bool × Text
  gap : Text
  typ : TypeW

def AttrW.line (q : Nat) (also : Nat → Bool) (a : AttrW) : Text :=
  a.kw ++ a.sep :: (hdrWriteTok q also a.name ++ a.gap ++ a.typ.text q also)

def AttrW.ok (isDense : Bool) (a : AttrW) : Bool :=
  lowerAscii a.kw == kwAttribute && hdrTokOk false a.name && a.gap ≠ [] && a.gap.all isPySpace && a.typ.ok isDense


/-! ### whole ARFF files as a writer emits them (spec side) -/

/-- a cell of the table that is written -/
inductive CellW where
  | missing
  | num (tok : Text)
  | str (s : Text)
  | cat (s : Text)
  deriving DecidableEq, Repr

def CellW.text : CellW → Text
  | .missing => [QM]
  | .num t => t
  | .str s => s
  | .cat s => s

def CellW.isMissing : CellW → Bool
  | .missing => true
  | _ => false

/-- what the reader must return for the cell in a column with encoder `e` -/
def CellW.out (e : Enc) : CellW → Cell
  | .missing => .missing
  | .num t => .num t
  | .str s => .str s
  | .cat s => (match e with | .nominal lv => .cat s lv | _ => .str s)

/-- the cell fits its column and can be told from the missing marker: numbers are float literals;
strings and levels hold no `?` (C12-F12, C12-F15); a nominal column has no level named `?` (C12-F13);
the missing marker is written bare -/
def cellWOk (e : Enc) (x : Bool × CellW) : Bool :=
  match e, x.2 with
  | .numeric, .num t => isFloatLit t && !t.contains QM
  | .str, .str s => !s.contains QM
  | .nominal lv, .cat s => lv.contains s && !s.contains QM
  | .numeric, .missing => !x.1
  | .str, .missing => !x.1
  | .nominal lv, .missing => !x.1 && !lv.contains [QM]
  | _, _ => false

def rowCellsOk : List Enc → List (Bool × CellW) → Bool
  | [], [] => true
  | e :: es, x :: xs => cellWOk e x && rowCellsOk es xs
  | _, _ => false

def rowOut : List Enc → List (Bool × CellW) → List Cell
  | e :: es, x :: xs => x.2.out e :: rowOut es xs
  | _, _ => []

def denseTok (x : Bool × CellW) : Bool × Text := (x.1, x.2.text)

/-- a dense data line -/
def denseRowLine (q : Nat) (also : Nat → Bool) (pad : Nat) (row : List (Bool × CellW)) : Text :=
  arffWriteRow q also pad (row.map denseTok)

/-- hypotheses on a dense row: it fits the columns, satisfies `arffRowOk` (one quote style) and the
line does not look like a comment -/
def denseRowWOk (q : Nat) (also : Nat → Bool) (pad : Nat) (encs : List Enc) (row : List (Bool × CellW)) : Bool :=
  rowCellsOk encs row && arffRowOk q (row.map denseTok) && (denseRowLine q also pad row).head? != some PCT

/-- C12-F17: the first data line must not be wrapped in braces -/
def notBraced (line : Text) : Bool := !(line.head? == some LBRACE && line.getLast? == some RBRACE)


/-! ## E. delivery: a decompressor that emits nothing for a while; reader objects -/

/-- a lawful streaming "decompressor" whose first outputs are empty: it swallows an `n`-byte
header (what zlib does with the 10-byte gzip header: `decompress` returns `b''` for those chunks) -/
def Decomp.skip (n : Nat) : Decomp Nat := ⟨n, fun k bs => (k - bs.length, bs.drop k)⟩

/-- the reader objects of coba/pipes/readers.py: what a reader carries are its constructor arguments -/
inductive ReaderKind where
  | csv (d : Dialect) (hasHeader : Bool)
  | arff
  | libsvm
  | manik
  deriving DecidableEq, Repr

inductive ReadResult where
  | csv (r : Except Err (Option (List Text) × List (List Text)))
  | arff (r : Except Err ArffResult)
  | svm (r : Except Err (List SvmRow))

/-- `list(reader.filter(lines))`, rows materialised -/
def readerParse : ReaderKind → List Text → ReadResult
  | .csv d h, ls => .csv (csvReaderFix d h ls)
  | .arff, ls => .arff (arffRead ls)
  | .libsvm, ls => .svm (libsvmRead ls)
  | .manik, ls => .svm (manikRead ls)

/-- one use of a reader object: a full read, or a read abandoned after the first row (nothing
observed); the object that remains is the object that was there -/
def readerStep (r : ReaderKind) (input : List Text × Bool) : ReaderKind × Option ReadResult :=
  (r, if input.2 then none else some (readerParse r input.1))

/-- a history of uses of ONE reader object: what each use returned -/
def readerRun (r : ReaderKind) : List (List Text × Bool) → List (Option ReadResult)
  | [] => []
  | i :: is => (readerStep r i).2 :: readerRun (readerStep r i).1 is

/-! ## F. phase 4: whole sparse ARFF files (spec side), the fallback parser on plain lines, CPython numerals -/

/-- a sparse item as written: the column index in decimal digits and the cell -/
def sparseTok (x : Text × CellW) : Text × Text := (x.1, x.2.text)

/-- a sparse data line `{i v, i v, …}` -/
def sparseRowLine (pad : Nat) (row : List (Text × CellW)) : Text := sparseWriteRow pad (row.map sparseTok)

/-- what the reader must return for a written item: the column's name and the cell as the column's encoder gives it -/
def sparseItemOut (names : List Text) (encs : List Enc) (x : Text × CellW) : Option (Text × Cell) :=
  match names[(digitsVal x.1).toNat]?, encs[(digitsVal x.1).toNat]? with
  | some nm, some e => some (nm, x.2.out e)
  | _, _ => none

/-- what an omitted column reads as (coba's sparse convention): a numeric 0 is simply absent, a string column
reads `'0'`, a nominal column its level `'0'` -/
def sparseDefaultCell : Enc → Option Cell
  | .numeric => none
  | .str => some (.str ZERO)
  | .nominal lv => if lv.contains ZERO then some (.cat ZERO lv) else none

/-- the default entries of a row: every column that was not written and has a default cell, in column order -/
def sparseDefaultAt (names : List Text) (encs : List Enc) (written : List Int) (i : Nat) : Option (Text × Cell) :=
  if written.contains (i : Int) then none
  else match names[i]?, encs[i]? with
    | some nm, some e => (match sparseDefaultCell e with | some c => some (nm, c) | none => none)
    | _, _ => none

def sparseDefaults (names : List Text) (encs : List Enc) (written : List Int) : List (Text × Cell) :=
  (List.range encs.length).filterMap (sparseDefaultAt names encs written)

/-- the row the reader must return: written items in written order, then the defaults -/
def sparseRowOut (names : List Text) (encs : List Enc) (row : List (Text × CellW)) : List (Text × Cell) :=
  row.filterMap (sparseItemOut names encs) ++ sparseDefaults names encs (row.map (fun x => digitsVal x.1))

/-- hypotheses on a sparse row: `sparseRowOk` (decimal indices, distinct, in range; bare values — C12-F10) and
every cell fits its column (`cellWOk`: float literals, no `?` inside strings/levels, no level named `?`) -/
def sparseRowWOk (n : Nat) (encs : List Enc) (row : List (Text × CellW)) : Bool :=
  sparseRowOk n (row.map sparseTok) &&
  row.all (fun x => match encs[(digitsVal x.1).toNat]? with
    | some e => cellWOk e (false, x.2)
    | none => false)

/-! ### the fallback parser on plain (unquoted) lines -/

/-- a value on which the csv fast path and the fallback parser `_dense_advanced` agree: written bare (`bareOk`:
no comma, quote character, backslash, line break; no leading blank), not empty (the fallback indexes `item[0]`)
and not starting with other white space (the fallback `lstrip`s, csv only skips blanks) -/
def plainTok (v : Text) : Bool :=
  bareOk v && (match v with | c :: _ => !isPySpace c | [] => false)

/-- values separated by a comma and `pad` blanks, nothing quoted -/
def plainRowLine (pad : Nat) (vs : List Text) : Text := arffWriteRow SQ (fun _ => false) pad (vs.map (fun v => (false, v)))

/-! ### `int()` / `float()` as CPython reads them -/

def US : Nat := 95

/-- PEP 515: an underscore is allowed only between two digits; they are dropped.  `none` = misplaced underscore -/
def dropUsGo (prevDigit : Bool) : Text → Option Text
  | [] => some []
  | c :: t =>
    if c = US then
      (match t with
       | d :: _ => if prevDigit && isDigit d then dropUsGo false t else none
       | [] => none)
    else (dropUsGo (isDigit c) t).map (c :: ·)

def dropUs (t : Text) : Option Text := dropUsGo false t

/-- what `int()` / `float()` strip: Unicode white space, but of the ASCII range only blank and `\t \n \v \f \r`
(`Py_ISSPACE`) — the separators `\x1c`–`\x1f`, which `str.strip()` removes, are NOT skipped (found by the phase 4 generator) -/
def isNumSpace (c : Nat) : Bool := isPySpace c && !(28 ≤ c && c ≤ 31)

def stripNum (t : Text) : Text := ((t.dropWhile isNumSpace).reverse.dropWhile isNumSpace).reverse

/-- `int(tok)` (base 10) for ASCII text: surrounding white space, sign, digits with single underscores between them
(non-ASCII decimal digits, which CPython also accepts, are not modelled) -/
def parseIntPy (tok : Text) : Option Int :=
  match dropUs (stripNum tok) with
  | some t => if t = strip t then parseInt t else none
  | none => none

/-- `float(tok)` succeeds, for ASCII text: as `isFloatLit` plus underscores between digits -/
def isFloatLitPy (tok : Text) : Bool :=
  match dropUs (stripNum tok) with
  | some t => t == strip t && isFloatLit t
  | none => false

/-- no character of the token is one of the separators `\x1c`–`\x1f` -/
def noFs (t : Text) : Bool := t.all (fun c => !(28 ≤ c && c ≤ 31))

/-! ## H. phase 5: the whole ARFF reader over CPython's numerals

The definitions of part D with the two numeral functions as parameters (`pi` = `int()` of a sparse index,
`fl` = "`float()` succeeds" of a numeric cell); `arffReadPy` instantiates them with `parseIntPy` / `isFloatLitPy`.
`arffRead` (unchanged, imported elsewhere) is the instance with the older `parseInt` / `isFloatLit` (Lemmas:
`arffReadG_old`), and both agree on files without underscores and `\x1c`–`\x1f` (`arffReadPy_conservative`). -/

def parseKeysG (pi : Text → Option Int) : List Text → Except Err (List Int)
  | [] => .ok []
  | k :: ks => match pi k with
    | none => .error .valueError
    | some i => match parseKeysG pi ks with
      | .error e => .error e
      | .ok r => .ok (i :: r)

def arffSparseLineG (pi : Text → Option Int) (n : Nat) (line : Text) : Except Err (List (Int × Text)) :=
  let kv := sparseSplit (stripBraces line)
  if kv = [[]] then .ok []
  else match parseKeysG pi (evens kv) with
    | .error e => .error e
    | .ok keys =>
      let d := dictOf (keys.zip (odds kv))
      if d.any (fun p => p.1 < 0 || (n : Int) ≤ p.1) then .error .cobaException else .ok d

def encodeCellG (fl : Text → Bool) (e : Enc) (v : Text) : Except Err Cell :=
  match e with
  | .numeric => if fl v then .ok (.num v) else if v = [QM] ∨ v = [] then .ok .missing else .error .valueError
  | .str => if v = [QM] then .ok .missing else .ok (.str v)
  | .nominal lv => if lv.contains v then .ok (.cat v lv) else if v = [QM] ∨ v = [] then .ok .missing else .error .cobaException

def encodeRowG (fl : Text → Bool) : List Enc → List Text → Except Err (List Cell)
  | e :: es, v :: vs => (match encodeCellG fl e v with
    | .error er => .error er
    | .ok c => match encodeRowG fl es vs with | .error er => .error er | .ok r => .ok (c :: r))
  | _, _ => .ok []

def denseRowsG (fl : Text → Bool) (encs : List Enc) (n : Nat) (s : ALRF) : List Text → Except Err (List DenseRow)
  | [] => .ok []
  | line :: ls =>
    if line.head? = some PCT then denseRowsG fl encs n s ls
    else match arffLineStepF n s line with
      | .error e => .error e
      | .ok (s1, raw) => match encodeRowG fl encs raw with
        | .error e => .error e
        | .ok cells => match denseRowsG fl encs n s1 ls with
          | .error e => .error e
          | .ok r => .ok (⟨cells, denseMissing line⟩ :: r)

def sparseItemsG (fl : Text → Bool) (names : List Text) (encs : List Enc) : List (Int × Text) → Except Err (List (Text × Cell))
  | [] => .ok []
  | (k, v) :: r =>
    match nthD names k.toNat, nthD encs k.toNat with
    | some nm, some e => (match encodeCellG fl e v with
      | .error er => .error er
      | .ok c => match sparseItemsG fl names encs r with | .error er => .error er | .ok rest => .ok ((nm, c) :: rest))
    | _, _ => sparseItemsG fl names encs r

def sparseRowsG (pi : Text → Option Int) (fl : Text → Bool) (names : List Text) (encs : List Enc) (n : Nat) :
    List Text → Except Err (List SparseRow)
  | [] => .ok []
  | line :: ls =>
    if line.head? = some PCT then sparseRowsG pi fl names encs n ls
    else match arffSparseLineG pi n line with
      | .error e => .error e
      | .ok raw =>
        let extra := ((notSparse encs).filter (fun (i : Nat) => !(raw.any (fun p => p.1 = (i : Int))))).map (fun (i : Nat) => ((i : Int), ZERO))
        match sparseItemsG fl names encs (raw ++ extra) with
        | .error e => .error e
        | .ok items => match sparseRowsG pi fl names encs n ls with
          | .error e => .error e
          | .ok r => .ok (⟨items, sparseMissing line⟩ :: r)

def arffReadNG (pi : Text → Option Int) (fl : Text → Bool) (ls : List Text) : Except Err ArffResult :=
  let head := ls.takeWhile (fun l => lowerAscii l ≠ kwData)
  let attrLines := head.filter (fun l => lowerAscii (l.take 5) = kwAttr)
  let data := (ls.dropWhile (fun l => lowerAscii l ≠ kwData)).drop 1
  let data := data.dropWhile (fun l => l.head? = some PCT)
  match data with
  | [] => .ok .empty
  | first :: _ =>
    let isDense := !(first.head? = some LBRACE) || !(first.getLast? = some RBRACE)
    match arffAttrs isDense [] attrLines with
    | .error e => .error e
    | .ok [] => .error .valueError
    | .ok attrs =>
      let names := attrs.map (·.1)
      let encs := attrs.map (·.2)
      if isDense then
        match denseRowsG fl encs attrLines.length ALRF.init data with
        | .error e => .error e
        | .ok rows => .ok (.dense names rows)
      else
        match sparseRowsG pi fl names encs attrLines.length data with
        | .error e => .error e
        | .ok rows => .ok (.sparse names rows)

def arffReadG (pi : Text → Option Int) (fl : Text → Bool) (lines : List Text) : Except Err ArffResult :=
  arffReadNG pi fl (arffNormalize lines)

/-- `list(ArffReader().filter(lines))`, rows materialised, with `int()` / `float()` as CPython reads them
(underscores between digits accepted, `\x1c`–`\x1f` not skipped) -/
def arffReadPy (lines : List Text) : Except Err ArffResult := arffReadG parseIntPy isFloatLitPy lines

/-- a character that is neither an underscore nor one of the separators `\x1c`–`\x1f` -/
def numClean (c : Nat) : Bool := !(c == US) && !(28 ≤ c && c ≤ 31)

/-- a file free of underscores and `\x1c`–`\x1f` -/
def linesNumClean (lines : List Text) : Bool := lines.all (fun l => l.all numClean)

/-! ### phase 5: the fallback parser on lines whose pieces do not start with a quote character; `_fallback_delim` undecided -/

/-- what `_dense_advanced` makes of a piece that does not start with a quote character: `lstrip`, every backslash deleted -/
def advClean (p : Text) : Text := (lstrip p).filter (· != BS)

/-- after `lstrip` the piece does not start with a quote character (it may hold quote characters further in) -/
def pieceUnquoted (p : Text) : Bool := match lstrip p with | c :: _ => !isQuoteCh c | [] => true

/-- `self._fallback_delim = ',' if len(line.split(',')) > len(line.split('\t')) else '\t'` -/
def fallbackDelim (line : Text) : Nat := if (splitOn COMMA line).length > (splitOn TAB line).length then COMMA else TAB

/-- the `while d_line` loop on pieces none of which starts with a quote character: IndexError (`item[0]`) when a piece is
blank, otherwise every piece cleaned -/
def advUnquoted (ps : List Text) : Except Err (List Text) :=
  if ps.all (fun p => lstrip p != []) then .ok (ps.map advClean) else .error .indexError

/-- a value the fallback parser returns verbatim when it splits at commas: not empty, does not start with white space or a
quote character, holds no comma and no backslash (tabs and quote characters further in are allowed) -/
def innerTok (v : Text) : Bool :=
  (match v with | c :: _ => !isPySpace c && !isQuoteCh c | [] => false) && v.all (fun c => !(c == COMMA || c == BS))

/-! ### phase 5: LibSVM / Manik with `int()` / `float()` of the tokens as CPython reads them -/

/-- `{ int(k):float(v) for … }` of one tokenised row: keys through `parseIntPy`, values must pass `isFloatLitPy`
(their text is kept; the value of an accepted literal is CPython's), dict semantics (`dictOf`: first insertion fixes the
position, the last value wins); any failure is a ValueError -/
def svmRowPy (r : SvmRow) : Except Err (List (Int × Text) × List Text) :=
  match parseKeysG parseIntPy (r.feats.map (·.1)) with
  | .error e => .error e
  | .ok keys =>
    if r.feats.all (fun kv => isFloatLitPy kv.2) then .ok (dictOf (keys.zip (r.feats.map (·.2))), r.labels)
    else .error .valueError

def svmRowsPy : List SvmRow → Except Err (List (List (Int × Text) × List Text))
  | [] => .ok []
  | r :: rs => match svmRowPy r with
    | .error e => .error e
    | .ok x => match svmRowsPy rs with
      | .error e => .error e
      | .ok xs => .ok (x :: xs)

/-- `list(LibsvmReader().filter(lines))` with the conversions -/
def libsvmReadPy (lines : List Text) : Except Err (List (List (Int × Text) × List Text)) :=
  match libsvmRead lines with
  | .error e => .error e
  | .ok rows => svmRowsPy rows

/-- `list(ManikReader().filter(lines))` with the conversions -/
def manikReadPy (lines : List Text) : Except Err (List (List (Int × Text) × List Text)) := libsvmReadPy (lines.drop 1)

/-- what the reader must return for a written row: index ↦ value (as a dict), labels -/
def svmRowOutPy (r : SvmRow) : List (Int × Text) × List Text :=
  (dictOf (r.feats.map (fun kv => (digitsVal kv.1, kv.2))), r.labels)

/-- indices are decimal digit strings, values are literals `float()` accepts -/
def svmNumOk (r : SvmRow) : Bool :=
  r.feats.all (fun kv => kv.1 ≠ [] && kv.1.all isDigit && isFloatLitPy kv.2)

/-! ## L. (phase 6) Histories of `DiskSink` / `DiskSource` operations over a set of files

A *history* is any sequence of operations on any number of paths: `DiskSink(p, batch=b).write(lines)` (append mode — the
default `'a+'`), a complete `list(DiskSource(p).read())`, and a read that is abandoned after `k` lines
(`islice(DiskSource(p).read(), k)`, generator closed).  The state is the file system: per path the list of byte strings
that were appended (plain: the concatenation is the file; `.gz`: one gzip member each).  Reads do not change it. -/

/-- an association list from path ids to lists (files: appended byte strings; spec: lines written so far) -/
abbrev Store (α : Type) := List (Nat × List α)

def storeGet {α : Type} : Store α → Nat → Option (List α)
  | [], _ => none
  | (q, x) :: r, p => if q = p then some x else storeGet r p

/-- opening in append mode creates the file; writing appends -/
def storeAppend {α : Type} : Store α → Nat → List α → Store α
  | [], p, xs => [(p, xs)]
  | (q, x) :: r, p, xs => if q = p then (q, x ++ xs) :: r else (q, x) :: storeAppend r p xs

inductive DiskOp where
  | write (p : Nat) (batch : Option Nat) (lines : List Text)
  | read (p : Nat)
  | readk (p : Nat) (k : Nat)
  deriving Repr

/-- what one operation returns: nothing (a write), the lines of a read, or FileNotFoundError -/
inductive DiskOut where
  | wrote
  | lines (r : Except Err (List Text))
  | nofile
  deriving Repr

/-- one operation on the real objects; `rd` turns the appended byte strings into the bytes the opener hands to the text
layer (plain: concatenation; `.gz`: gunzip of the concatenated members). A write whose lines cannot be encoded raises. -/
def diskStep (rd : List (List Nat) → List Nat) (fs : Store (List Nat)) : DiskOp → Except Err (Store (List Nat) × DiskOut)
  | .write p b ls =>
    match diskWriteParts b ls with
    | .error e => .error e
    | .ok parts => .ok (storeAppend fs p parts, .wrote)
  | .read p =>
    match storeGet fs p with
    | none => .ok (fs, .nofile)
    | some parts => .ok (fs, .lines (diskRead (rd parts)))
  | .readk p k =>
    match storeGet fs p with
    | none => .ok (fs, .nofile)
    | some parts => .ok (fs, .lines ((diskRead (rd parts)).map (List.take k)))

def diskRun (rd : List (List Nat) → List Nat) (fs : Store (List Nat)) : List DiskOp → Except Err (List DiskOut)
  | [] => .ok []
  | op :: ops =>
    match diskStep rd fs op with
    | .error e => .error e
    | .ok (fs', out) =>
      match diskRun rd fs' ops with
      | .error e => .error e
      | .ok outs => .ok (out :: outs)

/-- the spec: per path the lines written so far, in order; a read returns exactly them (a prefix when abandoned),
whatever happened before on this or any other path -/
def diskSpecRun (st : Store Text) : List DiskOp → List DiskOut
  | [] => []
  | .write p _ ls :: ops => .wrote :: diskSpecRun (storeAppend st p ls) ops
  | .read p :: ops =>
    (match storeGet st p with | none => DiskOut.nofile | some ls => .lines (.ok ls)) :: diskSpecRun st ops
  | .readk p k :: ops =>
    (match storeGet st p with | none => DiskOut.nofile | some ls => .lines (.ok (ls.take k))) :: diskSpecRun st ops

/-- the lines an operation writes are Python strings of scalar values without `\r` / `\n` -/
def diskOpOk : DiskOp → Bool
  | .write _ _ ls => ls.all (fun l => noNl l && l.all isScalar)
  | _ => true

/-! ## M. (phase 6) the labelled CSV pipeline: `CsvReader | LabelRows(label, tipe)` -/

/-- the `label` argument of `LabelRows` / `label_col` of `SupervisedSimulation`: a column index (negative counts from the
end) or a header name -/
inductive LabelRef where
  | idx (i : Int)
  | name (t : Text)
  deriving Repr

/-- `dict(zip(headers, count()))[name]` (`HeadRows`): the LAST column that carries the name -/
def headerIndexGo (name : Text) : Nat → Option Nat → List Text → Option Nat
  | _, acc, [] => acc
  | i, acc, h :: hs => headerIndexGo name (i + 1) (if h = name then some i else acc) hs

def headerIndex (hdr : List Text) (name : Text) : Option Nat := headerIndexGo name 0 none hdr

/-- `LabelRows.filter` on dense rows: `ind = first.headers[label] if isinstance(label,str) else label`, then
`if ind < 0: ind += len(first)`; `none` = the lookup raises (no headers / unknown name) -/
def labelIndex (hdr : Option (List Text)) (firstLen : Nat) : LabelRef → Option Int
  | .idx i => some (if i < 0 then i + firstLen else i)
  | .name t =>
    match hdr with
    | none => none
    | some h => (headerIndex h t).map (fun (j : Nat) => if (j : Int) < 0 then (j : Int) + firstLen else (j : Int))

/-- `LabelDense(row, ind)` materialised: `(list(row.feats), row.label)` = `DropOne(row, ind)` and `row[ind]`;
`none` = an exception when materialised (index outside the row) -/
def labelDense (ind : Int) (row : List Text) : Option (List Text × Text) :=
  if ind < 0 then none
  else match row[ind.toNat]? with
    | none => none
    | some l => some (row.eraseIdx ind.toNat, l)

def labelDenseAll (ind : Int) : List (List Text) → Option (List (List Text × Text))
  | [] => some []
  | r :: rs => match labelDense ind r, labelDenseAll ind rs with
    | some x, some xs => some (x :: xs)
    | _, _ => none

/-- `[(list(r.feats), r.label) for r in LabelRows(label, tipe).filter(rows)]` on the rows a `CsvReader` returned -/
def labelRows (hdr : Option (List Text)) (ref : LabelRef) : List (List Text) → Option (List (List Text × Text))
  | [] => some []
  | first :: rest =>
    match labelIndex hdr first.length ref with
    | none => none
    | some ind => labelDenseAll ind (first :: rest)

/-- `Pipes.join(CsvReader(has_header, **dialect), LabelRows(label, tipe)).filter(lines)`, materialised -/
def csvLabelRead (d : Dialect) (hasHeader : Bool) (ref : LabelRef) (lines : List Text) :
    Except Err (Option (List (List Text × Text))) :=
  match csvReaderFix d hasHeader lines with
  | .error e => .error e
  | .ok (hdr, rows) => .ok (labelRows hdr ref rows)

/-- spec: the column a label reference names in a table of width `n` -/
def labelCol (hdr : Option (List Text)) (n : Nat) : LabelRef → Option Nat
  | .idx i => if 0 ≤ i ∧ i < n then some i.toNat else if i < 0 ∧ -(n : Int) ≤ i then some (i + n).toNat else none
  | .name t => match hdr with | none => none | some h => headerIndex h t

/-- spec: what the file says — the other cells in written order, and the label cell -/
def labelSplit (j : Nat) (row : List Text) : List Text × Text := (row.eraseIdx j, row.getD j [])

end Coba.C12
