/-
C08 — Multi-process filtering delivers every output exactly once and never hangs.

Executable model (import-free) of `coba.pipes.multiprocessing.Multiprocessor.filter`:
a labelled transition system whose actions are the atomic steps of the real code between two
scheduling points (queue put/get, event wait, process start/exit, callback entry).

Actors
* loader thread (`load_line`: IterableSource → Stopper → Pickler → QueueSink(in_queue)) and,
  after it ended, its callback `loader_finished_or_failed` which writes `[poison]*_n_procs`
  through the same Stopper;
* `n` worker lineages (a `MyProcessLine`, replaced by a fresh one by the callback
  `filter_finished_or_failed` when it retired un-poisoned and nothing failed);
* the consuming caller (the generator body: `event.wait()`, `out_get.read()`, the `finally`
  block that stops the loader and drains both queues, the final re-raise).

Items are abstract: an item has an identity, the list of outputs the wrapped filter yields for
it and optionally an error raised after those outputs.
-/
namespace Coba.C08

structure ItemSpec where
  id   : Nat
  outs : List Nat
  err  : Option Nat
  perr : Option Nat := none   -- the item cannot be pickled: `Pickler` raises this (a CobaException) in the loader thread
deriving Repr, DecidableEq

structure Cfg where
  n     : Nat            -- n_processes (≥ 1)
  m     : Nat            -- maxtasksperchild (0 = unlimited)
  items : List ItemSpec
  timeouts : Bool := false   -- does the code pass a finite timeout to `put` on the in_queue?  (the real code does not)
deriving Repr

/-- state of one worker lineage -/
inductive W where
  | spawned                                              -- process started, `run` not entered yet
  | run (k : Nat) (pend : List Nat) (err : Option Nat)   -- has taken k items; outputs still to put; error to raise after them
  | exited (poisoned : Bool) (err : Option Nat)          -- process ended, callback not yet run
  | dead                                                 -- callback decided not to restart (`_n_procs -= 1`)
deriving Repr, DecidableEq

inductive Phase where
  | waitEvent | consuming | fin | done
deriving Repr, DecidableEq

structure State where
  todo      : List (Option ItemSpec)     -- what the loader (or its callback) still has to write; `none` = poison pill
  infl      : Option (Option ItemSpec)   -- element that passed the Stopper and is about to be put
  lphase    : Bool                       -- loader callback entered (pills phase)
  inq       : List (Option ItemSpec)     -- in_queue (FIFO, capacity 2n)
  outq      : List (Option Nat)          -- out_queue (FIFO, unbounded); `none` = poison pill
  ws        : List W
  nprocs    : Nat                        -- `_n_procs`
  excs      : List Nat                   -- `_exceptions`
  event     : Bool
  recv      : List Nat                   -- what the caller has been handed so far
  main      : Phase
  abandoned : Bool
  dropIn    : List (Option ItemSpec)     -- ghost: elements thrown away (drained from in_queue / never loaded after stop)
  dropOut   : List (Option Nat)          -- ghost: elements drained from out_queue by the `finally` block
  lexc      : Option Nat := none         -- the loader thread's exception (`ThreadLine.exception`), recorded by its callback
deriving Repr, DecidableEq

inductive Action where
  | loadTake | loadPut | loadFinish
  | wBegin (w : Nat) | wGet (w : Nat) | wPut (w : Nat) | wRaise (w : Nat) | wRetire (w : Nat) | wCallback (w : Nat)
  | mEvent | cGet | cAbandon | drainIn | drainOut | mDone
deriving Repr, DecidableEq

def init (c : Cfg) : State :=
  { todo := c.items.map some, infl := none, lphase := false, inq := [], outq := [],
    ws := List.replicate c.n W.spawned, nprocs := c.n, excs := [], event := false, recv := [],
    main := .waitEvent, abandoned := false, dropIn := [], dropOut := [] }

/-- the Stopper has been stopped exactly when the caller entered its `finally` block -/
def State.stopped (s : State) : Bool := s.main == .fin || s.main == .done

def State.active (s : State) : Bool := s.main == .waitEvent || s.main == .consuming

def cap (c : Cfg) : Nat := 2 * c.n

/-- the pickling error of an element of the loader's stream (pills and picklable items have none) -/
def perrOf : Option ItemSpec → Option Nat
  | some x => x.perr
  | none => none

/-- may a worker that has taken `k` items pull another element?  (`Slice(None, m)`) -/
def mayTake (c : Cfg) (k : Nat) : Bool := c.m == 0 || k < c.m

def enabled (c : Cfg) (s : State) : Action → Bool
  | .loadTake   => s.infl.isNone && !s.stopped && !s.todo.isEmpty
  | .loadPut    => s.infl.isSome && s.inq.length < cap c
  | .loadFinish => !s.lphase && s.infl.isNone && (s.todo.isEmpty || s.stopped)
  | .wBegin w   => s.ws[w]? == some W.spawned && (w == 0 || s.main != .waitEvent)
  | .wGet w     => match s.ws[w]? with
                   | some (.run k [] none) => mayTake c k && !s.inq.isEmpty
                   | _ => false
  | .wPut w     => match s.ws[w]? with
                   | some (.run _ (_ :: _) _) => true
                   | _ => false
  | .wRaise w   => match s.ws[w]? with
                   | some (.run _ [] (some _)) => true
                   | _ => false
  | .wRetire w  => match s.ws[w]? with
                   | some (.run k [] none) => !mayTake c k
                   | _ => false
  | .wCallback w => match s.ws[w]? with
                   | some (.exited _ _) => true
                   | _ => false
  | .mEvent     => s.main == .waitEvent && s.event
  | .cGet       => s.main == .consuming && !s.outq.isEmpty
  | .cAbandon   => s.main == .consuming
  | .drainIn    => s.main == .fin && !s.inq.isEmpty
  | .drainOut   => s.main == .fin && !s.outq.isEmpty
  | .mDone      => s.main == .fin

def step (_c : Cfg) (s : State) : Action → State
  | .loadTake =>
      match s.todo with
      | x :: rest =>
          match perrOf x with
          | some e => { s with todo := [], dropIn := s.dropIn ++ s.todo, lexc := some e }   -- Pickler raises: the loader thread ends
          | none => { s with todo := rest, infl := some x }
      | [] => s
  | .loadPut =>
      match s.infl with
      | some x => { s with infl := none, inq := s.inq ++ [x] }
      | none => s
  | .loadFinish => { s with lphase := true, todo := List.replicate s.nprocs none, dropIn := s.dropIn ++ s.todo,
                            excs := s.excs ++ s.lexc.toList }
  | .wBegin w => { s with ws := s.ws.set w (.run 0 [] none), event := true }
  | .wGet w =>
      match s.ws[w]?, s.inq with
      | some (.run k _ _), some x :: rest => { s with inq := rest, ws := s.ws.set w (.run (k + 1) x.outs x.err) }
      | some (.run _ _ _), none :: rest => { s with inq := rest, ws := s.ws.set w (.exited true none) }
      | _, _ => s
  | .wPut w =>
      match s.ws[w]? with
      | some (.run k (o :: pend) e) => { s with outq := s.outq ++ [some o], ws := s.ws.set w (.run k pend e) }
      | _ => s
  | .wRaise w =>
      match s.ws[w]? with
      | some (.run _ _ e) => { s with ws := s.ws.set w (.exited false e) }
      | _ => s
  | .wRetire w => { s with ws := s.ws.set w (.exited false none) }
  | .wCallback w =>
      match s.ws[w]? with
      | some (.exited p e) =>
          let excs := s.excs ++ e.toList
          if !p && excs.isEmpty then
            { s with excs := excs, ws := s.ws.set w .spawned }
          else
            { s with excs := excs, ws := s.ws.set w .dead, nprocs := s.nprocs - 1,
                     outq := if s.nprocs - 1 == 0 then s.outq ++ [none] else s.outq }
      | _ => s
  | .mEvent => { s with main := .consuming }
  | .cGet =>
      match s.outq with
      | some o :: rest => { s with outq := rest, recv := s.recv ++ [o] }
      | none :: rest => { s with outq := rest, main := .fin }
      | [] => s
  | .cAbandon => { s with main := .fin, abandoned := true }
  | .drainIn =>
      match s.inq with
      | x :: rest => { s with inq := rest, dropIn := s.dropIn ++ [x] }
      | [] => s
  | .drainOut =>
      match s.outq with
      | x :: rest => { s with outq := rest, dropOut := s.dropOut ++ [x] }
      | [] => s
  | .mDone => { s with main := .done }

/-! ### abandoning the output: what the caller's own thread does, and the workers it leaves behind -/

/-- the caller's `finally` block after `close()`: drain both queues, then return (no other thread is needed) -/
def finishSeq (s : State) : List Action :=
  .cAbandon :: (List.replicate s.inq.length .drainIn ++ List.replicate s.outq.length .drainOut ++ [.mDone])

/-- a worker process parked on `in_queue.get()`: nothing to take and (the loader being stopped) nothing will come -/
def parked (c : Cfg) (s : State) (w : Nat) : Bool :=
  match s.ws[w]? with
  | some (.run k [] none) => mayTake c k && s.inq.isEmpty
  | _ => false

/-! ### independence of steps (partial-order reduction of the schedule enumeration) -/

/-- the worker lineage an action belongs to -/
def lin : Action → Option Nat
  | .wBegin w | .wGet w | .wPut w | .wRaise w | .wRetire w | .wCallback w => some w
  | _ => none

/-- steps that read and write nothing but their own lineage's state (`wBegin` also sets the event) -/
def isLocal : Action → Bool
  | .wBegin _ | .wRaise _ | .wRetire _ => true
  | _ => false

def indep1 (a b : Action) : Bool :=
  (isLocal a && lin b != lin a) ||
  (match a, b with
   | .loadTake, .wPut _ | .loadTake, .wGet _ | .loadTake, .wCallback _ | .loadTake, .mEvent => true
   | .loadPut, .wPut _ | .loadPut, .wCallback _ | .loadPut, .cGet | .loadPut, .mEvent => true
   | .wGet w, .wPut w' | .wGet w, .wCallback w' => w != w'
   | .wGet _, .cGet | .wGet _, .mEvent | .wPut _, .mEvent => true
   | _, _ => false)

/-- two actions whose order does not matter (they touch disjoint parts of the state): the table the harness' sleep-set
enumeration uses; `step_comm` proves that it is sound -/
def indep (a b : Action) : Bool := indep1 a b || indep1 b a

/-- run a trace; `none` as soon as an action is not enabled -/
def runTrace (c : Cfg) : State → List Action → Option State
  | s, [] => some s
  | s, a :: as => if enabled c s a then runTrace c (step c s a) as else none

inductive Reachable (c : Cfg) : State → Prop where
  | init : Reachable c (init c)
  | step {s a} : Reachable c s → enabled c s a = true → Reachable c (step c s a)

/-! ### environment extension: a `put` with a finite timeout that gives up (`queue.Full`)

The fake queue of the harness lets the scheduler decide, for a put with a timeout on a full queue, between waiting and
raising `queue.Full`.  The real code passes no timeout, so this action is disabled for it (`Cfg.timeouts = false`); a
`QueueSink` that swallows `Full` (breaks out of its loop) loses the element in flight and everything not yet loaded. -/

inductive ActionT where
  | base (a : Action)
  | putTimeout
deriving Repr, DecidableEq

def enabledT (c : Cfg) (s : State) : ActionT → Bool
  | .base a => enabled c s a
  | .putTimeout => c.timeouts && s.infl.isSome && Nat.ble (cap c) s.inq.length

def stepT (c : Cfg) (s : State) : ActionT → State
  | .base a => step c s a
  | .putTimeout =>
      match s.infl with
      | some x => { s with infl := none, todo := [], dropIn := s.dropIn ++ x :: s.todo }
      | none => s

def runTraceT (c : Cfg) : State → List ActionT → Option State
  | s, [] => some s
  | s, a :: as => if enabledT c s a then runTraceT c (stepT c s a) as else none

inductive ReachableT (c : Cfg) : State → Prop where
  | init : ReachableT c (init c)
  | step {s a} : ReachableT c s → enabledT c s a = true → ReachableT c (stepT c s a)

/-! ### phase 4: a larger independence table

`wPut w`–`cGet` (both possible only when the out-queue is NOT empty: the caller takes the head, the worker appends at the end)
and `loadPut`–`wGet w` (both possible only when the in-queue is neither empty nor full).  `step_comm2` proves that these pairs
commute whenever both steps are possible, which is what the sleep-set enumeration needs: a sleeping thread was runnable when
it fell asleep and stays so (commutation keeps it enabled). -/

def indepExtra1 : Action → Action → Bool
  | .wPut _, .cGet => true
  | .loadPut, .wGet _ => true
  | _, _ => false

def indep2 (a b : Action) : Bool := indep a b || indepExtra1 a b || indepExtra1 b a

/-! ### phase 4: fault extension — a worker process dies (exit code ≠ 0, `_main_err`)

`filter_finished_or_failed` for a process whose `exitcode != 0`: no exception is recorded (nothing came through the pipe),
`call._main_err = True; event.set()`, the lineage is NOT replaced, `_n_procs -= 1` and the out pill at zero — for `_n_procs`,
`_exceptions` and the queues that is exactly what the callback does for a worker in state `exited true none`, so a crashed
lineage is represented by that base state plus the mark `crashed` (the W state "crashed": process gone, callback pending).
After `event.wait()` the caller looks at `_main_err` ONCE: if set it starts no further process and goes straight to `finally`.
What the dead process had not yet put (and the error it was about to raise) is lost: ghost `lostOuts`/`lostErrs`.
`budget` = number of faults the environment may still inject (any finite fault sequence: the theorems are for every budget). -/

structure FState where
  b        : State
  mainErr  : Bool          -- `call._main_err`
  crashed  : List Nat      -- lineages whose process died and whose callback has not run yet
  budget   : Nat           -- faults still to come
  lostOuts : List Nat      -- ghost: outputs the dead processes still held
  lostErrs : List Nat      -- ghost: errors the dead processes were about to raise
  skipped  : Bool          -- the caller found `_main_err` set after `event.wait()`
deriving Repr, DecidableEq

inductive ActionF where
  | base (a : Action)
  | wCrash (w : Nat)
deriving Repr, DecidableEq

def initF (c : Cfg) (faults : Nat) : FState :=
  { b := init c, mainErr := false, crashed := [], budget := faults, lostOuts := [], lostErrs := [], skipped := false }

/-- has lineage `w`'s current process been started?  (lineage 0 before `event.wait()`, the others after it unless skipped) -/
def startedF (s : FState) (w : Nat) : Bool := (w == 0 || s.b.main != .waitEvent) && (!s.skipped || w == 0)

def enabledF (c : Cfg) (s : FState) : ActionF → Bool
  | .base (.wBegin w) => enabled c s.b (.wBegin w) && startedF s w
  | .base a => enabled c s.b a
  | .wCrash w => decide (0 < s.budget) &&
      (match s.b.ws[w]? with
       | some (.run _ _ _) => true
       | some .spawned => startedF s w
       | _ => false)

def stepF (c : Cfg) (s : FState) : ActionF → FState
  | .base (.wCallback w) =>
      if s.crashed.contains w then
        { s with b := { step c s.b (.wCallback w) with event := true }, mainErr := true, crashed := s.crashed.erase w }
      else { s with b := step c s.b (.wCallback w) }
  | .base .mEvent =>
      if s.mainErr then { s with b := { s.b with main := .fin }, skipped := true }
      else { s with b := step c s.b .mEvent }
  | .base a => { s with b := step c s.b a }
  | .wCrash w =>
      match s.b.ws[w]? with
      | some (.run _ pend e) =>
          { s with b := { s.b with ws := s.b.ws.set w (.exited true none) }, crashed := w :: s.crashed, budget := s.budget - 1,
                   lostOuts := s.lostOuts ++ pend, lostErrs := s.lostErrs ++ e.toList }
      | some .spawned =>
          { s with b := { s.b with ws := s.b.ws.set w (.exited true none) }, crashed := w :: s.crashed, budget := s.budget - 1 }
      | _ => s

def runTraceF (c : Cfg) : FState → List ActionF → Option FState
  | s, [] => some s
  | s, a :: as => if enabledF c s a then runTraceF c (stepF c s a) as else none

inductive ReachableF (c : Cfg) (faults : Nat) : FState → Prop where
  | init : ReachableF c faults (initF c faults)
  | step {s a} : ReachableF c faults s → enabledF c s a = true → ReachableF c faults (stepF c s a)

/-- "no incarnation has taken more than `m` items" as a predicate of its own (it is inductive without the rest of `Inv`) -/
def maxTasksOk (c : Cfg) (s : State) : Bool :=
  s.ws.all (fun x => match x with | .run k _ _ => c.m == 0 || k ≤ c.m | _ => true)

/-! ### phase 4: `read_wait=True`

`MyProcessLine.run`: after the line has ended (pill, error or `Slice` exhausted) the process writes its `UniqueKey` to the
out-queue and waits on its own event; the caller, when it reads a `UniqueKey` from the out-queue, sets that event instead of
yielding the value; only then does the process exit and its callback run.  So a process is gone only after the caller has
read everything the process put before its key.  Layered over the base system: `routq` is the out-queue INCLUDING keys
(`b.outq` is what is left when the keys are removed), `keyPending` = line ended, key not yet written, `keyWait` = key written,
waiting for the caller (the W state "keyWait").  The base steps are unchanged; `wCallback w` has to wait until lineage `w` is
neither in `keyPending` nor in `keyWait`, and the caller's `cGet`/`drainOut` apply when the head of `routq` is not a key. -/

inductive ROut where
  | val (o : Nat) | pill | key (w : Nat)
deriving Repr, DecidableEq

def ROut.lift : Option Nat → ROut
  | some o => .val o
  | none => .pill

def ROut.proj : ROut → Option (Option Nat)
  | .val o => some (some o)
  | .pill => some none
  | .key _ => none

structure RState where
  b          : State
  routq      : List ROut
  keyPending : List Nat
  keyWait    : List Nat
deriving Repr, DecidableEq

inductive ActionR where
  | base (a : Action)
  | wKey (w : Nat)      -- the process writes its key
  | cKey                -- the caller reads a key and sets that process' event (the process exits)
  | drainKey            -- the `finally` block throws a key away
deriving Repr, DecidableEq

def initR (c : Cfg) : RState := { b := init c, routq := [], keyPending := [], keyWait := [] }

def isKeyHead : List ROut → Bool
  | .key _ :: _ => true
  | _ => false

/-- the lineage whose line ends by this base step (pill taken, error, `Slice` exhausted) -/
def lineEnds (s : State) : Action → Option Nat
  | .wRaise w => some w
  | .wRetire w => some w
  | .wGet w => (match s.inq with | none :: _ => some w | _ => none)
  | _ => none

/-- follow the base out-queue: an element taken from the head, or the elements appended at the end -/
def syncOut (old new : List (Option Nat)) (r : List ROut) : List ROut :=
  if new.length < old.length then r.drop 1 else r ++ (new.drop old.length).map ROut.lift

def enabledR (c : Cfg) (s : RState) : ActionR → Bool
  | .base (.wCallback w) => enabled c s.b (.wCallback w) && !s.keyPending.contains w && !s.keyWait.contains w
  | .base .cGet => enabled c s.b .cGet && !isKeyHead s.routq
  | .base .drainOut => enabled c s.b .drainOut && !isKeyHead s.routq
  | .base a => enabled c s.b a
  | .wKey w => s.keyPending.contains w
  | .cKey => s.b.main == .consuming && isKeyHead s.routq
  | .drainKey => s.b.main == .fin && isKeyHead s.routq

def stepR (c : Cfg) (rw : Bool) (s : RState) : ActionR → RState
  | .base a =>
      let b' := step c s.b a
      { s with b := b', routq := syncOut s.b.outq b'.outq s.routq,
               keyPending := (match rw, lineEnds s.b a with
                              | true, some w => w :: s.keyPending
                              | _, _ => s.keyPending) }
  | .wKey w => { s with routq := s.routq ++ [.key w], keyPending := s.keyPending.erase w, keyWait := w :: s.keyWait }
  | .cKey =>
      match s.routq with
      | .key w :: rest => { s with routq := rest, keyWait := s.keyWait.filter (· != w) }
      | _ => s
  | .drainKey => { s with routq := s.routq.drop 1 }

def runTraceR (c : Cfg) (rw : Bool) : RState → List ActionR → Option RState
  | s, [] => some s
  | s, a :: as => if enabledR c s a then runTraceR c rw (stepR c rw s a) as else none

inductive ReachableR (c : Cfg) (rw : Bool) : RState → Prop where
  | init : ReachableR c rw (initR c)
  | step {s a} : ReachableR c rw s → enabledR c s a = true → ReachableR c rw (stepR c rw s a)

/-! ### what the caller observes -/


inductive Outcome where
  | ok (outs : List Nat)            -- generator exhausted normally
  | raised (e : Nat) (outs : List Nat)
  | closed (outs : List Nat)        -- abandoned early, `close()` returned
deriving Repr, DecidableEq

def outcome (s : State) : Outcome :=
  if s.abandoned then .closed s.recv
  else match s.excs with
    | e :: _ => .raised e s.recv
    | [] => .ok s.recv

/-! ### several calls on one Multiprocessor object

`filter` (multi-process branch) begins with `self._n_procs = …; self._exceptions = []; self._poison = None;
self._main_err = False; self._load_stopper = Stopper()` and creates fresh queues, lines and an event: every per-call
field is re-assigned, whatever the previous call left on the object. -/

/-- the fields a finished call leaves on the object -/
structure Obj where
  nprocs : Nat
  excs   : List Nat
deriving Repr, DecidableEq

def State.obj (s : State) : Obj := { nprocs := s.nprocs, excs := s.excs }

/-- first state of a call on a used object (the re-assignments of `filter`) -/
def startCall (_o : Obj) (c : Cfg) : State := { init c with nprocs := c.n, excs := [] }

/-- VARIANT (not the code): `_exceptions` initialised once in `__init__` and kept across calls -/
def startCallStale (o : Obj) (c : Cfg) : State := { init c with excs := o.excs }

/-- a history: the calls run one after the other, each from `start` of what the previous one left -/
def runHistoryWith (start : Obj → Cfg → State) : Obj → List (Cfg × List Action) → Option (List Outcome)
  | _, [] => some []
  | o, (c, tr) :: rest =>
    match runTrace c (start o c) tr with
    | none => none
    | some s =>
      match runHistoryWith start s.obj rest with
      | none => none
      | some os => some (outcome s :: os)

def runHistory := runHistoryWith startCall

/-- the spec of a history: every call judged on its own, from `init` -/
def singleCalls : List (Cfg × List Action) → Option (List Outcome)
  | [] => some []
  | (c, tr) :: rest =>
    match runTrace c (init c) tr with
    | none => none
    | some s =>
      match singleCalls rest with
      | none => none
      | some os => some (outcome s :: os)

/-! ### CobaMultiprocessor around Multiprocessor

`CobaMultiprocessor.filter`: `_, items = peek_first(items); if not items: return []`, then (marshalling of logger / cacher /
store is C01's) `yield from Multiprocessor(filter, n, m).filter(items)` inside `try … except RuntimeError as e: coba_exit(str(e))`.
A one-shot iterator is modelled by the list of what it will still yield; looking at its first element consumes it. -/

/-- `peek_first(it)`: the first element (if any) and a stream that yields everything again (`chain([first], it)`) -/
def peekFirst {α} (it : List α) : Option α × List α :=
  match it with
  | [] => (none, [])
  | x :: rest => (some x, x :: rest)

/-- what the original one-shot iterator still yields after `peek_first` looked at it -/
def afterPeek {α} (it : List α) : List α := it.drop 1

/-- the stream the wrapper hands to the inner Multiprocessor (the code uses the re-chained one) -/
def wrapperInput {α} (it : List α) : List α := (peekFirst it).2

/-- VARIANT (not the code): `if not peek_first(items)[1]: return []` and then the ORIGINAL iterator is passed on -/
def wrapperInputStale {α} (it : List α) : List α := afterPeek it

/-- the empty-input shortcut `if not items: return []` looks at the re-chained stream … -/
def wrapperSkips {α} (it : List α) : Bool := (peekFirst it).2.isEmpty

/-- … VARIANT (not the code): `if first is None: return []` — an item that is `None` looks like "no first item" -/
def wrapperSkipsStale {α} (it : List (Option α)) : Bool :=
  match (peekFirst it).1 with
  | none => true
  | some none => true
  | some (some _) => false

inductive WOutcome where
  | ok (outs : List Nat)
  | raised (e : Nat) (outs : List Nat)
  | exit (e : Nat) (outs : List Nat)      -- `CobaExit(str(e))`, a BaseException
  | closed (outs : List Nat)
deriving Repr, DecidableEq

/-- the wrapper's exception translation; `boot e` = "error `e` is the RuntimeError the code means to turn into a quiet exit" -/
def wrapOutcome (boot : Nat → Bool) : Outcome → WOutcome
  | .ok o => .ok o
  | .closed o => .closed o
  | .raised e o => if boot e then .exit e o else .raised e o

/-! ### spec -/

def allOuts (c : Cfg) : List Nat := c.items.flatMap (·.outs)
def allErrs (c : Cfg) : List Nat := c.items.filterMap (·.err) ++ c.items.filterMap (·.perr)

/-! ### termination measure (a plain natural number) -/

def elemCost : Option ItemSpec → Nat
  | some x => 2 * x.outs.length + 4 + (if x.err.isSome then 3 else 0)
  | none => 3

def wPot (c : Cfg) : W → Nat
  | .spawned => 1
  | .run k pend e => 2 * pend.length + (if e.isSome then 3 else 0) + (if mayTake c k then 0 else 3)
  | .exited _ _ => 2
  | .dead => 0

def phasePot : Phase → Nat
  | .waitEvent => 3 | .consuming => 2 | .fin => 1 | .done => 0

def listSum : List Nat → Nat
  | [] => 0
  | x :: xs => x + listSum xs

def mu (c : Cfg) (s : State) : Nat :=
  listSum (s.todo.map (fun x => elemCost x + 2))
  + (match s.infl with | some x => elemCost x + 1 | none => 0)
  + listSum (s.inq.map elemCost)
  + s.outq.length
  + listSum (s.ws.map (wPot c))
  + (if s.lphase then 0 else 1 + 5 * s.nprocs)
  + phasePot s.main

/-- the termination measure with faults: every fault costs the environment one unit of its budget -/
def muF (c : Cfg) (s : FState) : Nat := mu c s.b + 3 * s.budget

/-- the termination measure with `read_wait` -/
def muR (c : Cfg) (s : RState) : Nat := 6 * mu c s.b + 4 * s.keyPending.length + 2 * s.keyWait.length + s.routq.length

/-! ### the in-process path (`n_processes == 1 and maxtasksperchild == 0`): `Foreach` -/

/-- outputs handed to the caller, and the error that ends the iteration (if any) -/
def inproc : List ItemSpec → List Nat × Option Nat
  | [] => ([], none)
  | x :: xs =>
    match x.err with
    | some e => (x.outs, some e)
    | none => let r := inproc xs; (x.outs ++ r.1, r.2)

/-! ### phase 5: "no step of the code is possible" as an executable predicate (fault extension) -/

/-- the steps of the code (every action but the caller giving up), for the lineages `0 … n-1` -/
def codeActions (c : Cfg) : List Action :=
  [.loadTake, .loadPut, .loadFinish, .mEvent, .cGet, .drainIn, .drainOut, .mDone] ++
  (List.range c.n).flatMap (fun w => [.wBegin w, .wGet w, .wPut w, .wRaise w, .wRetire w, .wCallback w])

/-- no step of the code is enabled (a further crash or the caller giving up do not count) -/
def stuckF (c : Cfg) (s : FState) : Bool := (codeActions c).all (fun a => !enabledF c s (.base a))


/-! ### phase 5: crash × `read_wait` — a process dies while it waits for the caller (its key written, its event not yet set)

The process is gone with an exit code ≠ 0; what it reported through the pipe before it began to wait (its exception, `poisoned`) has
arrived, so the callback records the exception as usual, but — `worker.exitcode != 0` — sets `_main_err` and the event, never
replaces the lineage, decrements `_n_procs` and writes the out pill at zero: for the queues and counters exactly the callback of a
POISONED lineage (`exited true e`).  The key stays in the out-queue; when the caller reads it, `.set()` goes to an event nobody
waits on (in the layer: `cKey` filters a lineage out of `keyWait` that is no longer there).  Layered over `RState` in the style of
`FState`. -/


structure RFState where
  r        : RState
  mainErr  : Bool          -- `call._main_err`
  crashedK : List Nat      -- lineages whose process died while it waited for the caller, callback not yet run
  budget   : Nat
  skipped  : Bool
deriving Repr, DecidableEq

inductive ActionRF where
  | r (a : ActionR)
  | wCrashKey (w : Nat)    -- the process of lineage `w` dies while it waits (its key written, its event not yet set)
deriving Repr, DecidableEq

def initRF (c : Cfg) (faults : Nat) : RFState :=
  { r := initR c, mainErr := false, crashedK := [], budget := faults, skipped := false }

def enabledRF (c : Cfg) (s : RFState) : ActionRF → Bool
  | .r (.base (.wBegin w)) => enabledR c s.r (.base (.wBegin w)) && (!s.skipped || w == 0)
  | .r a => enabledR c s.r a
  | .wCrashKey w => decide (0 < s.budget) && s.r.keyWait.contains w &&
      (match s.r.b.ws[w]? with | some (.exited _ _) => true | _ => false)

def stepRF (c : Cfg) (rw : Bool) (s : RFState) : ActionRF → RFState
  | .r (.base (.wCallback w)) =>
      if s.crashedK.contains w then
        { s with r := { stepR c rw s.r (.base (.wCallback w)) with b := { (stepR c rw s.r (.base (.wCallback w))).b with event := true } },
                 mainErr := true, crashedK := s.crashedK.erase w }
      else { s with r := stepR c rw s.r (.base (.wCallback w)) }
  | .r (.base .mEvent) =>
      if s.mainErr then { s with r := { s.r with b := { s.r.b with main := .fin } }, skipped := true }
      else { s with r := stepR c rw s.r (.base .mEvent) }
  | .r a => { s with r := stepR c rw s.r a }
  | .wCrashKey w =>
      match s.r.b.ws[w]? with
      | some (.exited _ e) =>
          { s with r := { s.r with b := { s.r.b with ws := s.r.b.ws.set w (.exited true e) }, keyWait := s.r.keyWait.filter (· != w) },
                   crashedK := w :: s.crashedK, budget := s.budget - 1 }
      | _ => s

def runTraceRF (c : Cfg) (rw : Bool) : RFState → List ActionRF → Option RFState
  | s, [] => some s
  | s, a :: as => if enabledRF c s a then runTraceRF c rw (stepRF c rw s a) as else none

inductive ReachableRF (c : Cfg) (rw : Bool) (faults : Nat) : RFState → Prop where
  | init : ReachableRF c rw faults (initRF c faults)
  | step {s a} : ReachableRF c rw faults s → enabledRF c s a = true → ReachableRF c rw faults (stepRF c rw s a)


/-! ### phase 6: the read_wait protocol of `MyProcessLine` as programs

`MyProcessLine.run` is `super().run()` (the line: take items until pill / error / `Slice` exhausted), then — iff `start` created
`_wait` — `self._line[-1].write([self._wait_key])` and `self._wait.wait()`; `MyProcessLine.start` creates and registers the event
and the key iff a store (the caller's `read_waiters` dict) was handed in; the caller dispatches every value read from the out
queue with `if read_waiters and isinstance(i, UniqueKey): read_waiters[i].set() else: yield i`.  These three pieces are extracted
from the source (`Generated/C08ReadWait.lean`) and executed for real by the harness (`rwproto` cases); the theorems
`readwait_program_*` say that the R layer above (`keyPending` / `wKey` / `keyWait` / `cKey`) is this program. -/

inductive RWOp where
  | runLine | writeKey | waitCaller
deriving Repr, DecidableEq

def RWOp.code : RWOp → Nat
  | .runLine => 0 | .writeKey => 1 | .waitCaller => 2

/-- `MyProcessLine.run` (hasWait = `hasattr(self,'_wait')`) -/
def workerProgram (hasWait : Bool) : List RWOp :=
  .runLine :: (if hasWait then [.writeKey, .waitCaller] else [])

/-- `MyProcessLine.start`: event + key are created and registered iff a store was handed in (`rw is not None`), also when
the store is still empty (the first process of a call) -/
def startRegisters (store : Bool) (_nonEmpty : Bool) : Bool := store

/-- the caller's dispatch on a value read from the out queue: true = `read_waiters[i].set()`, false = `yield i` -/
def callerSets (rw isKey : Bool) : Bool := rw && isKey

/-- where lineage `w` is in its program (R layer): 0 = in `runLine`, 1 = before `writeKey`, 2 = in `waitCaller` -/
def rwPc (s : RState) (w : Nat) : Nat :=
  if s.keyPending.contains w then 1 else if s.keyWait.contains w then 2 else 0

/-! ### phase 6: two calls on the same Multiprocessor object that are alive at the same time

`filter` is a generator: `g0 = mp.filter(a); g1 = mp.filter(b)` and the caller pulls from both in any order, abandons one while the other
is open, ….  Everything a call mutates lives on its own `CallState` / local queues (`call = CallState()`), the object is only read
(`_filter`, `_max_processes`, `_maxtasksperchild`, `_read_wait`), so the joint system is the PRODUCT of two single-call systems:
a step of one call changes only that call's component.  The harness runs such histories on the real code under one scheduler and the
driver replays the joint log through `enabled2/step2` (op `trace2`). -/
inductive Action2 where
  | first (a : Action) | second (a : Action)
deriving Repr, DecidableEq

def enabled2 (c1 c2 : Cfg) (s : State × State) : Action2 → Bool
  | .first a => enabled c1 s.1 a
  | .second a => enabled c2 s.2 a

def step2 (c1 c2 : Cfg) (s : State × State) : Action2 → State × State
  | .first a => (step c1 s.1 a, s.2)
  | .second a => (s.1, step c2 s.2 a)

def runTrace2 (c1 c2 : Cfg) : State × State → List Action2 → Option (State × State)
  | s, [] => some s
  | s, a :: as => if enabled2 c1 c2 s a then runTrace2 c1 c2 (step2 c1 c2 s a) as else none

def proj1 : List Action2 → List Action
  | [] => [] | .first a :: t => a :: proj1 t | .second _ :: t => proj1 t
def proj2 : List Action2 → List Action
  | [] => [] | .first _ :: t => proj2 t | .second a :: t => a :: proj2 t

def exOv : Cfg := { n := 1, m := 1, items := [{ id := 0, outs := [1], err := none }] }
/-- two one-item calls (n = 1, m = 1) alive together: the caller starts both, reads the sibling first -/
def exOvTrace : List Action2 :=
  [.first (.wBegin 0), .second (.wBegin 0), .first .mEvent, .second .mEvent, .second .loadTake, .first .loadTake, .first .loadPut, .second .loadPut,
   .second (.wGet 0), .first (.wGet 0), .second (.wPut 0), .second .cGet, .first (.wPut 0), .first .cGet,
   .first (.wRetire 0), .second (.wRetire 0), .first .loadFinish, .second .loadFinish, .first .loadTake, .first .loadPut, .second .loadTake, .second .loadPut,
   .first (.wCallback 0), .second (.wCallback 0), .first (.wBegin 0), .second (.wBegin 0), .first (.wGet 0), .second (.wGet 0),
   .first (.wCallback 0), .second (.wCallback 0), .second .cGet, .second .mDone, .first .cGet, .first .mDone]

inductive Reachable2 (c1 c2 : Cfg) : State × State → Prop where
  | init : Reachable2 c1 c2 (init c1, init c2)
  | step {s a} : Reachable2 c1 c2 s → enabled2 c1 c2 s a = true → Reachable2 c1 c2 (step2 c1 c2 s a)


end Coba.C08
