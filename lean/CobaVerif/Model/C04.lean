/-
C04 — Environments can be read any number of times with identical results.

Executable model of the *stateful skeleton* of a coba environment pipeline
(`coba/pipes/sources.py SourceFilters.read`, `coba/pipes/filters.py Cache`,
`coba/environments/filters.py Shuffle / Cache / EmptyCheck / Finalize`,
`coba/environments/core.py materialize / cache / chunk / save`, `supervised.py`).
Imports only the finished models C09 / C05 (the filters that select and order interactions).

* An interaction is an opaque identifier (`Item`); a stateless filter is an arbitrary function
  `f : List Item → List Item` together with an arbitrary *laziness signature*
  `dem : input → downstream demand → upstream demand` (how far the filter drives its upstream
  generator when its own generator is driven so far).  Nothing is assumed about `dem`.
* A Python generator that is created, advanced `k` times and dropped is a `Demand`
  (`none` = created but never advanced, `pull k`, `all` = driven to `StopIteration`); the items a
  read session will deliver are fixed when it is opened (`view`), what the session does to the
  per-instance fields that survive between reads is `touch`.
* The per-instance fields are stored in the nodes themselves: Shuffle's current seed (as the number
  of times it has been multiplied by 3.21), `pipes.Cache._cache/_iter`, `EmptyCheck._isempty`,
  the one-shot `zip` of `from_supervised(X,Y)`, `SupervisedSimulation._params`.
* `Variant.asis` mirrors the code as it is (findings F1–F4), `Variant.fixed` the code with the
  repairs in `fixes/C04-*.diff`.
-/
import CobaVerif.Model.C09
import CobaVerif.Model.C10
import CobaVerif.Model.C11

namespace Coba.C04

abbrev Item := Nat

/-- how far the consumer drives a generator before dropping it -/
inductive Demand
  | none              -- generator object created, never advanced (nothing of its body runs)
  | pull (k : Nat)    -- advanced k ≥ 1 times, then dropped (closed) while suspended at a `yield`
  | all               -- advanced until `StopIteration` (code after the last `yield` runs)
deriving DecidableEq, Repr

/-- what the consumer has seen of a session that would deliver `xs` -/
def Demand.take : Demand → List Item → List Item
  | .none, _ => []
  | .pull k, xs => xs.take k
  | .all, xs => xs

def Demand.isNone : Demand → Bool
  | .none => true
  | _ => false

inductive Variant | asis | fixed
deriving DecidableEq, Repr

/-- a stateless filter: what it computes, how lazily, and the params it reports -/
structure PureSt where
  f : List Item → List Item
  dem : List Item → Demand → Demand
  par : List Nat

/-- `pipes.Cache` state: `_cache is None`, `_iter` alive (`c` cached, `r` still to come from the
saved iterator), `_iter is None` after the saved iterator was exhausted -/
inductive CacheSt
  | unread
  | prog (c r : List Item)
  | done (c : List Item)
deriving Repr

/-- a pipe instance together with the fields that survive between reads -/
inductive Node
  | pure (p : PureSt)
  /-- `environments.Shuffle(seed)`: `perm d` is the permutation `CobaRandom(seed*3.21^d).shuffle`
  applies, `logged` says whether the interactions it receives carry `action` and `reward`,
  `par d` the params it reports while `_seed = seed*3.21^d`, `depth` the current `d`. -/
  | shuffle (v : Variant) (perm : Nat → List Item → List Item) (logged : Bool) (par : Nat → List Nat) (depth : Nat)
  /-- `pipes.Cache(n_slice, protected)` / `environments.Cache` (its copies are invisible here) -/
  | cache (sz : Option Nat) (prot : Bool) (st : CacheSt)
  /-- `BatchSafe(Finalize())`: `EmptyCheck` followed by the stateless part `p` -/
  | finalize (p : PureSt) (isempty : Option Bool)

/-- the source: its data, what is left of a one-shot iterator, whether a read was ever started -/
structure Src where
  once : Bool
  items : List Item
  rem : List Item
  started : Bool
  parPre : List Nat
  parPost : List Nat

/-! ### what a read session delivers (fixed when the session is opened) -/

def nodeView : Node → List Item → List Item
  | .pure p, u => p.f u
  | .shuffle .fixed perm lg _ _, u => perm (if lg then 1 else 0) u
  | .shuffle .asis perm lg _ d, u => perm (if lg then d + 1 else d) u
  | .cache _ _ .unread, u => u
  | .cache _ _ (.prog c r), _ => c ++ r
  | .cache _ _ (.done c), _ => c
  | .finalize p fl, u => if fl = some true then [] else if u = [] then [] else p.f u

def viewN : List Item → List Node → List Item
  | u, [] => u
  | u, n :: ns => viewN (nodeView n u) ns

def srcView (s : Src) : List Item := if s.once then s.rem else s.items

/-! ### what a read session does to the surviving fields -/

/-- `while current := list(islice(self._iter, n_slice))`: pull slices of `sz` items from the saved
iterator until `k` items are cached or it is exhausted (`fuel` bounds the number of slices). -/
def fill (sz : Nat) : Nat → List Item → List Item → Nat → List Item × List Item
  | 0, c, r, _ => (c, r)
  | fuel + 1, c, r, k =>
    if k ≤ c.length ∨ r = [] then (c, r)
    else fill sz fuel (c ++ r.take sz) (r.drop sz) k

def sliceSize (sz : Option Nat) (r : List Item) : Nat :=
  match sz with
  | none => r.length        -- `islice(it, None)`: everything in one slice
  | some 0 => 1             -- `Cache(0)` is not used by coba (the loop would stop at once)
  | some n => n

/-- demand of a cache on its saved upstream iterator after this session: how many items it has
pulled from it in total, or `all` when a slice came back short (the iterator saw its end) -/
def cacheUpDemand (sz : Option Nat) (c r c' r' : List Item) : Demand :=
  if c'.length = c.length then .none
  else if r' = [] ∧ (sz = none ∨ r.length % sliceSize sz r ≠ 0) then .all
  else .pull c'.length

def cacheStep (sz : Option Nat) (c r : List Item) : Demand → CacheSt × Demand
  | .none => (.prog c r, .none)
  | .pull k =>
    let (c', r') := fill (sliceSize sz r) r.length c r k
    (.prog c' r', cacheUpDemand sz c r c' r')
  | .all => (.done (c ++ r), .all)

/-- one node reacts to the demand `d` on its output, `u` being what its upstream delivers;
returns the node afterwards and the demand it puts on its upstream -/
def nodeStep : Node → List Item → Demand → Node × Demand
  | .pure p, u, d => (.pure p, p.dem u d)
  | .shuffle .fixed perm lg par dep, _, d => (.shuffle .fixed perm lg par dep, if d.isNone then .none else .all)
  | .shuffle .asis perm lg par dep, u, d =>
    match d with
    | .none => (.shuffle .asis perm lg par dep, .none)
    | .pull _ => (.shuffle .asis perm lg par (if lg ∧ u ≠ [] then dep + 1 else dep), .all)   -- `self._seed = old_seed` never runs
    | .all => (.shuffle .asis perm lg par dep, .all)
  | .cache sz prot st, u, d =>
    match d, st with
    | .none, st => (.cache sz prot st, .none)
    | _, .done c => (.cache sz prot (.done c), .none)
    | d, .unread => let (st', du) := cacheStep sz [] u d; (.cache sz prot st', du)
    | d, .prog c r => let (st', du) := cacheStep sz c r d; (.cache sz prot st', du)
  | .finalize p fl, u, d =>
    match d, fl with
    | .none, fl => (.finalize p fl, .none)
    | _, some true => (.finalize p (some true), .none)
    | d, some false => (.finalize p (some false), if u = [] then .all else p.dem u d)
    | d, none => (.finalize p (some (u == [])), if u = [] then .all else p.dem u d)

/-- drive the chain `ns` (source first) whose upstream delivers `u` with demand `d` at its end;
returns the chain afterwards and the demand that reaches `u`'s producer -/
def touchN : List Item → List Node → Demand → List Node × Demand
  | _, [], d => ([], d)
  | u, n :: ns, d =>
    let (ns', dn) := touchN (nodeView n u) ns d
    let (n', du) := nodeStep n u dn
    (n' :: ns', du)

def demandCount : Demand → List Item → Nat
  | .none, _ => 0
  | .pull k, _ => k
  | .all, xs => xs.length

def srcStep (s : Src) (d : Demand) : Src :=
  { s with rem := if s.once then s.rem.drop (demandCount d s.rem) else s.rem }

/-! ### objects, params -/

structure Obj where
  src : Src
  nodes : List Node
  /-- the last node is the `BatchSafe(Finalize())` that `Environments.__getitem__` appended -/
  ownFin : Bool

def nodePar : Node → List Nat
  | .pure p => p.par
  | .shuffle .fixed _ _ par _ => par 0
  | .shuffle .asis _ _ par d => par d
  | .cache .. => []
  | .finalize .. => []

def srcPar (s : Src) : List Nat := if s.started then s.parPost else s.parPre

def Obj.params (o : Obj) : List Nat := srcPar o.src ++ o.nodes.flatMap nodePar

def Obj.view (o : Obj) : List Item := viewN (srcView o.src) o.nodes

/-- one read session on the object, driven as far as `d` -/
def Obj.touch (o : Obj) (d : Demand) : Obj :=
  let (ns', ds) := touchN (srcView o.src) o.nodes d
  { o with nodes := ns', src := { srcStep o.src ds with started := o.src.started || !d.isNone } }

/-- `next` is called `k` times on a fresh iterator: fewer than `k` items means it was exhausted -/
def partialDemand (k : Nat) (v : List Item) : Demand :=
  if k = 0 then .none else if v.length < k then .all else .pull k

/-! ### the denotation (spec side) -/

def nodeDen : Node → List Item → List Item
  | .pure p, u => p.f u
  | .shuffle _ perm lg _ _, u => perm (if lg then 1 else 0) u
  | .cache .., u => u
  | .finalize p _, u => if u = [] then [] else p.f u

def denN : List Item → List Node → List Item
  | u, [] => u
  | u, n :: ns => denN (nodeDen n u) ns

def nodeParDen : Node → List Nat
  | .pure p => p.par
  | .shuffle _ _ _ par _ => par 0
  | .cache .. => []
  | .finalize .. => []

def Obj.den (o : Obj) : List Item := denN o.src.items o.nodes
def Obj.denParams (o : Obj) : List Nat := o.src.parPost ++ o.nodes.flatMap nodeParDen

/-! ### the pool of objects and the operations of a history -/

inductive Op
  | full (on : Nat)
  | part (on k : Nat)
  | params (on : Nat)
  | materialize (on : Nat)
  | cache (on : Nat)
  | chunk (on : Nat)
  | pickle (on : Nat)
  | save (on : Nat)
deriving Repr

inductive Out
  | items (xs : List Item)
  | params (ts : List Nat)
  | derived
  | err
  | skip
deriving DecidableEq, Repr

structure World where
  /-- the stateless part of every `Finalize` instance -/
  fin : PureSt
  /-- behaviour of pickling / saving (F3, F4) -/
  variant : Variant
  /-- `none`: an object whose creation raised -/
  objs : List (Option Obj)

def isFinalize : Node → Bool
  | .finalize .. => true
  | _ => false

def isCache : Node → Bool
  | .cache .. => true
  | _ => false

/-- `nocache = lambda p: not isinstance(p,pipes.Cache) or p.protected` -/
def keptByMaterialize : Node → Bool
  | .cache _ prot _ => prot
  | _ => true

def Obj.base (o : Obj) : List Node := if o.ownFin then o.nodes.dropLast else o.nodes

/-- `Environments._finalize`: append a fresh `BatchSafe(Finalize())` unless one is in the chain -/
def finalized (fin : PureSt) (ns : List Node) : List Node × Bool :=
  if ns.any isFinalize then (ns, false) else (ns ++ [.finalize fin none], true)

def chunkP : PureSt := { f := id, dem := fun _ d => d, par := [] }

def lastIsCache (ns : List Node) : Bool :=
  match ns.getLast? with
  | some n => isCache n
  | none => false

def hasLiveIter : Node → Bool
  | .cache _ _ (.prog _ _) => true
  | _ => false

/-- the repaired `Cache.__getstate__`: a half-filled cache pickles as an unread one -/
def resetLive : Node → Node
  | .cache sz prot (.prog _ _) => .cache sz prot .unread
  | n => n

def setObj (w : World) (j : Nat) (o : Obj) : World := { w with objs := w.objs.set j (some o) }
def pushObj (w : World) (o : Option Obj) : World := { w with objs := w.objs ++ [o] }

def getObj (w : World) (j : Nat) : Option Obj :=
  match w.objs[j]? with
  | some (some o) => some o
  | _ => none

def isDerive : Op → Bool
  | .materialize _ | .cache _ | .chunk _ | .pickle _ | .save _ => true
  | _ => false

def Op.on : Op → Nat
  | .full j | .part j _ | .params j | .materialize j | .cache j | .chunk j | .pickle j | .save j => j

def stepObj (w : World) (j : Nat) (o : Obj) : Op → World × Out
  | .full _ => (setObj w j (o.touch .all), .items o.view)
  | .part _ k =>
    let d := partialDemand k o.view
    (setObj w j (o.touch d), .items (d.take o.view))
  | .params _ => (w, .params o.params)
  | .cache _ =>
    let (ns, own) := finalized w.fin (o.base ++ [.cache (some 25) false .unread])
    (pushObj w (some { src := o.src, nodes := ns, ownFin := own }), .derived)
  | .chunk _ =>
    let (ns, own) := finalized w.fin (o.base ++ [.pure chunkP, .cache (some 25) false .unread])
    (pushObj w (some { src := o.src, nodes := ns, ownFin := own }), .derived)
  | .materialize _ =>
    let env := (finalized w.fin o.base).1
    if lastIsCache env then
      (pushObj w (some { src := o.src, nodes := env, ownFin := false }), .derived)
    else
      let m : Obj := { src := o.src, nodes := env.filter keptByMaterialize ++ [.cache none true .unread], ownFin := false }
      let m' := m.touch .all
      -- the source object is shared with the parent: it has now been read
      (pushObj (setObj w j { o with src := m'.src }) (some m'), .derived)
  | .pickle _ =>
    match w.variant with
    | .asis =>
      if o.nodes.any hasLiveIter then (pushObj w none, .err)      -- cannot pickle 'generator' object
      else (pushObj w (some { o with ownFin := false }), .derived)
    | .fixed => (pushObj w (some { o with nodes := o.nodes.map resetLive, ownFin := false }), .derived)
  | .save _ =>
    -- `list(self)` finalizes with a fresh Finalize when the chain has none; EnvironmentsToObjects
    -- yields params, then reads everything
    let sv := srcView o.src
    let ub := viewN sv o.base
    let own := (finalized w.fin o.base).2
    let freshFin : Node := .finalize w.fin none
    let items := if own then nodeView freshFin ub else ub
    let dfin := if own then (nodeStep freshFin ub .all).2 else .all
    let (b', ds) := touchN sv o.base dfin
    let src' : Src := { srcStep o.src ds with started := true }
    let before := srcPar o.src ++ o.base.flatMap nodePar       -- params recorded before the read
    let after := srcPar src' ++ b'.flatMap nodePar
    let ps := match w.variant with
      | .asis => before
      | .fixed => after
    let s : Src := { once := false, items := items, rem := items, started := true, parPre := ps, parPost := ps }
    let parent : Obj := { o with src := src', nodes := b' ++ o.nodes.drop o.base.length }
    (pushObj (setObj w j parent) (some { src := s, nodes := [.finalize w.fin none], ownFin := true }), .derived)

def step (w : World) (op : Op) : World × Out :=
  match getObj w op.on with
  | some o => stepObj w op.on o op
  | none => (if isDerive op then pushObj w none else w, .skip)

def run : World → List Op → List Out
  | _, [] => []
  | w, op :: ops => let (w', o) := step w op; o :: run w' ops

def runW : World → List Op → World
  | w, [] => w
  | w, op :: ops => runW (step w op).1 ops

/-! ### one instance alone: a sequence of read sessions on one node over a fixed upstream -/

def sessions (n : Node) (u : List Item) : List Demand → Node
  | [] => n
  | d :: ds => sessions (nodeStep n u d).1 u ds

/-- `[xs[i] for i in p]` -/
def applyPerm (p : List Nat) (xs : List Item) : List Item := p.filterMap (fun i => xs[i]?)

/-! ### Densify's lookup table (`defaultdict(factory)` handing out the next index of a fixed
shuffled sequence): the table is the list of keys in order of first use; the index of a key is its
position.  Reading a prefix of the key stream feeds the keys of that prefix. -/

def feed : List Nat → List Nat → List Nat
  | tbl, [] => tbl
  | tbl, k :: ks => feed (if k ∈ tbl then tbl else tbl ++ [k]) ks

/-- table after a history of reads, read `i` having used the first `ms[i]` keys of the stream `K` -/
def feedHistory (K : List Nat) : List Nat → List Nat → List Nat
  | tbl, [] => tbl
  | tbl, m :: ms => feedHistory K (feed tbl (K.take m)) ms

/-! ### invariant used by the theorems (spec-side predicates) -/

def Node.Fixed : Node → Prop
  | .shuffle v _ _ _ _ => v = .fixed
  | _ => True

/-- the surviving fields of a node are consistent with `u`, the denotation of its upstream -/
def nodeOK : Node → List Item → Prop
  | .cache _ _ (.prog c r), u => c ++ r = u
  | .cache _ _ (.done c), u => c = u
  | .finalize _ (some b), u => b = (u == [])
  | _, _ => True

def chainOK : List Item → List Node → Prop
  | _, [] => True
  | u, n :: ns => nodeOK n u ∧ n.Fixed ∧ chainOK (nodeDen n u) ns

/-- `Finalize` applied to the output of a finalized pipeline -/
def finF (fin : PureSt) (u : List Item) : List Item := if u = [] then [] else fin.f u

structure ObjGood (fin : PureSt) (D : List Item) (P : List Nat) (o : Obj) : Prop where
  reiter : o.src.once = false
  ok : chainOK o.src.items o.nodes
  den : o.den = D
  par : o.denParams = P
  hasFin : o.nodes.any isFinalize = true
  own : o.ownFin = true → ∃ b fl, o.nodes = b ++ [.finalize fin fl] ∧ b.any isFinalize = false

/-- hypotheses of the re-read theorem: repaired code, re-iterable source, consistent fields,
`Finalize` leaves finalized output unchanged; every object of the pool denotes `D`, `P` -/
structure WorldGood (D : List Item) (P : List Nat) (w : World) : Prop where
  fixed : w.variant = .fixed
  finIdem : finF w.fin D = D
  objs : ∀ o, some o ∈ w.objs → ObjGood w.fin D P o

/-! # Phase 2 -/

/-! ## Built-in filters as real functions.  An interaction is still an identifier, but it comes
with the fields the selecting / ordering filters look att (`Attr`); those filters are the functions
of `Model/C09.lean`; a filter that rewrites every interaction independently is `mapE`. -/

structure Attr where
  logged : Bool
  hasCtx : Bool
  ctx : C09.Ctx
  nact : Nat

inductive Filt
  | take (count : Option Nat) (strict : Bool)
  | slice (start stop : Option Nat) (step : Nat)
  /-- the repaired `environments.Shuffle(seed)`: `lsd` is `seed*3.21` -/
  | shuffle (sd lsd : C09.Seed)
  | riffle (spacing : Nat) (sd : C09.Seed)
  | sort (keys : List C09.Val)
  | wher (nInt nAct nFet : C09.Range)
  /-- Repr / Flatten / Sparsify / Densify(hashing) / Binary / …: a function of the interaction -/
  | mapE (g : Item → Item)

def Filt.apply (att : Item → Attr) : Filt → List Item → List Item
  | .take c st, xs => C09.take c st xs
  | .slice a b st, xs => C09.slice a b st xs
  | .shuffle sd lsd, xs => C09.eShuffleSeeded (fun i => (att i).logged) sd lsd xs
  | .riffle sp sd, xs => C09.riffleSeeded sp sd xs
  | .sort keys, xs =>
    match C09.sortF (fun i => (att i).hasCtx) (fun i => (att i).ctx) keys xs with
    | .ok r => r
    | .error _ => xs          -- the real filter raises: such a pipeline cannot be read att all
  | .wher ni na nf, xs => C09.whereF (fun i => C09.ctxLen (att i).ctx) (fun i => (att i).nact) ni na nf xs
  | .mapE g, xs => xs.map g

/-- `islice(items, n)`: never pulls more than `n` items, sees the end only when there are fewer -/
def prefixDem (n : Nat) (u : List Item) (d : Demand) : Demand :=
  let cap (k : Nat) : Demand := if n = 0 then .none else if u.length < k then .all else .pull (min k n)
  match d with
  | .none => .none
  | .pull k => if n ≤ k then cap n else .pull k
  | .all => if u.length < n then .all else cap n

/-- laziness of the built-in filters (how far they drive their upstream) -/
def Filt.dem : Filt → List Item → Demand → Demand
  | .take none _, _, d => d
  | .take (some n) false, u, d => prefixDem n u d
  | .take (some n) true, u, _ => prefixDem n u .all           -- `list(islice(items,n))` when read() is called
  | .slice _ none _, _, d => d
  | .slice _ (some n) _, u, d => prefixDem n u d
  | .shuffle .., _, d => if d.isNone then .none else .all
  | .riffle .., _, _ => .all                                   -- `list(interactions)` when read() is called
  | .sort .., _, d => if d.isNone then .none else .all
  | .wher .., _, d => d
  | .mapE _, _, d => d

def Filt.toPure (att : Item → Attr) (f : Filt) (par : List Nat) : PureSt :=
  { f := f.apply att, dem := f.dem, par := par }

/-- the denotation of a chain of built-in filters, in closed form -/
def filtDen (att : Item → Attr) : List Item → List (Filt × List Nat) → List Item
  | u, [] => u
  | u, (f, _) :: fs => filtDen att (f.apply att u) fs

def filtNodes (att : Item → Attr) (fs : List (Filt × List Nat)) : List Node :=
  fs.map (fun p => .pure (p.1.toPure att p.2))

/-! ## Noise: `rng = CobaRandom(self._seed)` is created inside `filter`, so a read is a function
of the interactions it is given.  `step s x` = the noisy interaction and the generator state after
it.  The variant that keeps the generator in the instance threads the state through the reads. -/

def noiseScan (step : Nat → Item → Nat × Item) : Nat → List Item → Nat × List Item
  | s, [] => (s, [])
  | s, x :: xs =>
    let (s1, y) := step s x
    let (s2, ys) := noiseScan step s1 xs
    (s2, y :: ys)

/-- reads of the real filter: each starts from the seed -/
def noiseFresh (step : Nat → Item → Nat × Item) (seed : Nat) (u : List Item) : List Demand → List (List Item)
  | [] => []
  | d :: ds => d.take (noiseScan step seed u).2 :: noiseFresh step seed u ds

/-- reads of a filter that keeps `self._rng`: each starts where the previous one stopped -/
def noiseKept (step : Nat → Item → Nat × Item) (u : List Item) : Nat → List Demand → List (List Item)
  | _, [] => []
  | s, d :: ds =>
    let seen := d.take u
    let r := noiseScan step s seen
    r.2 :: noiseKept step u r.1 ds

/-! ## Collections: `Environments` holding several different environments.  A shortcut applied to
the collection gives every member its OWN new pipe (`[Pipes.join(env, Cache(25)) for env in …]`);
the pool then simply holds one object per member.  `cacheAll` is `Environments.cache()` on the
members `js`. -/

def cacheAll : World → List Nat → World
  | w, [] => w
  | w, j :: js => cacheAll (step w (.cache j)).1 js

/-- the variant `self.filter(Cache(25))`: ONE cache object for all members.  `sharedCacheReads st Us ms`:
full reads of the members `ms` (member `m` has upstream `Us[m]`) through the single cache state. -/
def sharedCacheReads (sz : Option Nat) : CacheSt → List (List Item) → List Nat → List (List Item)
  | _, _, [] => []
  | st, us, m :: ms =>
    let u := us.getD m []
    let n := Node.cache sz false st
    let out := nodeView n u
    match (nodeStep n u .all).1 with
    | .cache _ _ st' => out :: sharedCacheReads sz st' us ms
    | _ => out :: sharedCacheReads sz st us ms

/-! ## Caller-owned objects: constructor arguments (X, Y, row lists, reward feature lists, params
dicts, learners, …) live in heap cells of their own.  A step of the model never writes them.
`argEdit` describes a (hypothetical) source whose read rewrites the cell it was given. -/

structure HWorld where
  w : World
  caller : List (List Nat)
  /-- object index ↦ (cell it was constructed from, what a started read makes of that cell) -/
  argEdit : Nat → Option (Nat × (List Nat → List Nat))

def startsRead : Op → Bool
  | .full _ | .materialize _ | .save _ => true
  | .part _ k => k != 0
  | _ => false

def hstep (h : HWorld) (op : Op) : HWorld × Out :=
  let (w', out) := step h.w op
  let caller' :=
    match (if startsRead op && (getObj h.w op.on).isSome then h.argEdit op.on else none) with
    | some (cell, e) => h.caller.modify cell e
    | none => h.caller
  ({ h with w := w', caller := caller' }, out)

def hrunW : HWorld → List Op → HWorld
  | h, [] => h
  | h, op :: ops => hrunW (hstep h op).1 ops

def hrun : HWorld → List Op → List Out
  | _, [] => []
  | h, op :: ops => (hstep h op).2 :: hrun (hstep h op).1 ops

/-! ## Per-instance memoisation: `GroundedFeedback.__call__` is `lru_cache`d.  An instance draws a
word from its own generator (seeded with its seed, created on the first miss) every time it is
evaluated on an argument that is not in the memo; the memo is ONE table for all instances, keyed by
(instance, argument), least recently used entry evicted first when it has a capacity.
`draw inst k good` = the word the instance's k-th draw gives (from the good or the bad words). -/

structure Memo where
  /-- most recently used first -/
  entries : List ((Nat × Nat) × Nat)
  /-- draws made so far, per instance -/
  pos : List (Nat × Nat)

def Memo.posOf (m : Memo) (inst : Nat) : Nat := (m.pos.lookup inst).getD 0

def Memo.call (cap : Option Nat) (draw : Nat → Nat → Nat → Nat) (m : Memo) (inst arg : Nat) : Memo × Nat :=
  match m.entries.lookup (inst, arg) with
  | some v => ({ m with entries := ((inst, arg), v) :: m.entries.filter (fun e => e.1 != (inst, arg)) }, v)
  | none =>
    let k := m.posOf inst
    let v := draw inst k arg
    let es := ((inst, arg), v) :: m.entries
    let es := match cap with | some c => es.take c | none => es
    ({ entries := es, pos := (inst, k + 1) :: m.pos.filter (fun p => p.1 != inst) }, v)

/-- evaluate the feedbacks of a read: every (instance, argument) pair in order -/
def Memo.read (cap : Option Nat) (draw : Nat → Nat → Nat → Nat) : Memo → List (Nat × Nat) → Memo × List Nat
  | m, [] => (m, [])
  | m, (i, a) :: qs =>
    let (m1, v) := m.call cap draw i a
    let (m2, vs) := Memo.read cap draw m1 qs
    (m2, v :: vs)

def Memo.reads (cap : Option Nat) (draw : Nat → Nat → Nat → Nat) : Memo → List (List (Nat × Nat)) → List (List Nat)
  | _, [] => []
  | m, q :: qs => let (m1, vs) := Memo.read cap draw m q; vs :: Memo.reads cap draw m1 qs

/-- the memo after a list of reads -/
def Memo.after (cap : Option Nat) (draw : Nat → Nat → Nat → Nat) : Memo → List (List (Nat × Nat)) → Memo
  | m, [] => m
  | m, q :: qs => Memo.after cap draw (Memo.read cap draw m q).1 qs

/-- what the property needs: the value of (instance, argument) is fixed by the FIRST read -/
def memoOK (draw : Nat → Nat → Nat → Nat) (m : Memo) : Prop :=
  ∀ i a v, m.entries.lookup (i, a) = some v → ∃ k, k < m.posOf i ∧ v = draw i k a

/-! # Phase 3 -/

/-! ## Filters that rewrite interaction CONTENT (Repr, Flatten, Sparsify, Densify, Finalize's stateless part):
the functions of `Model/C10.lean` on `C10.Inter`.  `dec` gives the content of an identifier, `enc` the
identifier of a content (the harness interns canonical contents; both are arbitrary in the theorems). -/

def contentF (dec : Item → C10.Inter) (enc : C10.Inter → Item) (cfg : C10.Cfg) (st : C10.Step) (xs : List Item) : List Item :=
  match C10.runChain cfg [st] { stream := xs.map dec } with
  | .ok S => S.stream.map enc
  | .error _ => xs            -- the real filter raises: such a pipeline cannot be read at all

def contentPure (dec : Item → C10.Inter) (enc : C10.Inter → Item) (cfg : C10.Cfg) (st : C10.Step) (par : List Nat) : PureSt :=
  { f := contentF dec enc cfg st, dem := fun _ d => d, par := par }

/-! ## Aliasing: which stage writes into objects it received.  A store maps addresses to values; an
interaction travelling down the pipeline is an address.  `copyMap g` allocates a new object holding
`g` of the old value (what `interaction.copy()` / `Mutable` followed by assignment do), `share` hands
the same object on (Cache replay of `pipes.Cache`, Params, Chunk), `inPlace g` overwrites the object
it received (what a filter without the copy would do). -/

inductive AStage
  | copyMap (g : Nat → Nat)
  | share
  | inPlace (g : Nat → Nat)

abbrev Store := List Nat

def AStage.run : AStage → Store × List Nat → Store × List Nat
  | .copyMap g, (st, as) =>
    let vals := as.map (fun a => g (st.getD a 0))
    (st ++ vals, (List.range vals.length).map (· + st.length))
  | .share, sa => sa
  | .inPlace g, (st, as) => (as.foldl (fun s a => s.modify a g) st, as)

def runStages : List AStage → Store × List Nat → Store × List Nat
  | [], sa => sa
  | s :: ss, sa => runStages ss (s.run sa)

def AStage.writesInput : AStage → Bool
  | .inPlace _ => true
  | _ => false

/-- one read of the pipeline over the objects `held` (by the source, a cache, the caller) -/
def readOnce (stages : List AStage) (st : Store) (held : List Nat) : Store × List Nat := runStages stages (st, held)

/-- what the consumer sees: the values of the delivered objects -/
def deliver (sa : Store × List Nat) : List Nat := sa.2.map (fun a => sa.1.getD a 0)

/-! ## save() / from_save(): `pickle.dumps` of `[header, params, batch…]` into a zip member, `pickle.load`
until EOF.  Modelled on content: what a saved interaction looks like when it comes back.  Everything the
content type carries comes back unchanged; the exceptions are the reward functions, which travel as
`repr(state)` when the state is a Python literal. -/

def saveBatches (n : Nat) : List Item → List (List Item)
  | [] => []
  | x :: xs => ((x :: xs).take (n + 1)) :: saveBatches n ((x :: xs).drop (n + 1))
termination_by l => l.length
decreasing_by simp; omega

/-- `chain.from_iterable(batches)` -/
def loadBatches (bs : List (List Item)) : List Item := bs.flatten

/-! # Phase 4 -/

/-! ## Filters with a FITTING WINDOW on interaction content: `Scale` and `Impute` (the functions of
`Model/C11.lean` on the contexts) and `Noise` (a scan with the generator `CobaRandom(seed)` created
inside `filter`).  `Scale.filter` / `Impute.filter` do `it = iter(interactions); fitting =
list(islice(it, using))`, fit, and then transform `chain(fitting, it)`: what a row becomes depends
on the whole window. -/

inductive FitStage
  /-- `Scale(shift, scale, target, using)` -/
  | scale (cfg : C11.ScaleCfg)
  /-- `Impute(stat, indicator, using)` -/
  | impute (st : C11.Stat) (ind : Bool) (u : Option Nat)
  /-- `Noise(context=…, seed)`: `step state row = (state', noisy row)`, started from `seed` on every call of `filter` -/
  | noise (step : Nat → List C11.Val → Nat × List C11.Val) (seed : Nat)

def mapCtxs (g : List (List C11.Val) → List (List C11.Val)) : C11.Ctxs → C11.Ctxs
  | .dense rows => .dense (g rows)
  | c => c

def scanRows (step : Nat → List C11.Val → Nat × List C11.Val) : Nat → List (List C11.Val) → List (List C11.Val)
  | _, [] => []
  | s, r :: rs => (step s r).2 :: scanRows step (step s r).1 rs

/-- what one call of `filter` makes of the contexts it is given (a raising Scale leaves such a pipeline unreadable) -/
def FitStage.apply (sd : List Rat → Rat) : FitStage → C11.Ctxs → C11.Ctxs
  | .scale sc, c => match C11.scaleFilter sd sc c with | .ok c' => c' | .error _ => c
  | .impute st ind u, c => C11.imputeCtxs st ind u c
  | .noise step seed, c => mapCtxs (scanRows step seed) c

/-- the denotation of a chain of such stages, in closed form -/
def fitDen (sd : List Rat → Rat) (ss : List FitStage) (c : C11.Ctxs) : C11.Ctxs := ss.foldl (fun c s => s.apply sd c) c

def ctxsLen : C11.Ctxs → Nat
  | .dense r => r.length | .sparse r => r.length | .scalar r => r.length

def ctxsTake (k : Nat) : C11.Ctxs → C11.Ctxs
  | .dense r => .dense (r.take k) | .sparse r => .sparse (r.take k) | .scalar r => .scalar (r.take k)

/-- how much of its upstream the stage pulls: the window when the consumer asks for anything, then row by row -/
def FitStage.window : FitStage → Option Nat
  | .scale sc => sc.cfg.usingN
  | .impute _ _ u => u
  | .noise .. => some 0

/-- a fitting-window stage inside a pipeline of identifiers: `dec`/`enc` give the contents of a sequence of
identifiers and the identifiers of a sequence of contents (arbitrary in the theorems; the harness interns contents) -/
def fitPure (sd : List Rat → Rat) (dec : List Item → C11.Ctxs) (enc : C11.Ctxs → List Item) (s : FitStage) (par : List Nat) : PureSt :=
  { f := fun xs => enc (s.apply sd (dec xs)),
    dem := fun u d => match d, s.window with
      | .none, _ => .none
      | _, none => .all
      | .pull k, some n => if u.length < max k n then .all else .pull (max k n)
      | .all, some _ => .all,
    par := par }

/-! ### The iterator the window is taken from.  `read()` of the upstream gives a NEW iterator on every
call, so every read of the stage sees the whole upstream: `fitReadsFresh`.  `fitReadsKept` is the variant in
which the stage keeps ONE upstream iterator alive between reads (position `pos` survives): a later read fits
on what the earlier ones left. -/

/-- how many upstream rows a session that delivers under demand `d` has pulled -/
def fitPulled (win : Option Nat) (n : Nat) : Demand → Nat
  | .none => 0
  | .all => n
  | .pull k => match win with
    | none => n
    | some w => min n (max k w)

def demTake : Demand → C11.Ctxs → C11.Ctxs
  | .none, c => ctxsTake 0 c
  | .pull k, c => ctxsTake k c
  | .all, c => c

def ctxsDrop (k : Nat) : C11.Ctxs → C11.Ctxs
  | .dense r => .dense (r.drop k) | .sparse r => .sparse (r.drop k) | .scalar r => .scalar (r.drop k)

def fitReadsFresh (sd : List Rat → Rat) (s : FitStage) (c : C11.Ctxs) : List Demand → List C11.Ctxs
  | [] => []
  | d :: ds => demTake d (s.apply sd c) :: fitReadsFresh sd s c ds

def fitReadsKept (sd : List Rat → Rat) (s : FitStage) (c : C11.Ctxs) : Nat → List Demand → List C11.Ctxs
  | _, [] => []
  | pos, d :: ds =>
    let rest := ctxsDrop pos c
    demTake d (s.apply sd rest) :: fitReadsKept sd s c (pos + fitPulled s.window (ctxsLen rest) d) ds

/-! ## Aliasing, general form.  A stage sees the VALUES of the objects it is handed, in order.
`alloc F` puts `F values` into NEW objects (whatever `F` is: a row-wise map, a function of the whole
window such as Scale / Impute, a scan such as Noise, a selection or reordering of copies);
`share` hands the same objects on; `pick sel` hands on some of the SAME objects (Take, Slice, Shuffle,
Sort, Where, Reservoir, Cache replay: `sel n` = positions chosen among `n` objects); `write F` stores
`F values` back into the objects it was handed (what a filter without its copy does). -/

inductive GStage (α : Type)
  | alloc (F : List α → List α)
  | share
  | pick (sel : Nat → List Nat)
  | write (F : List α → List α)

def gvals {α} (d : α) (st : List α) (as : List Nat) : List α := as.map (fun a => st.getD a d)

def writeAll {α} : List α → List (Nat × α) → List α
  | st, [] => st
  | st, (a, v) :: avs => writeAll (st.set a v) avs

def GStage.run {α} (d : α) : GStage α → List α × List Nat → List α × List Nat
  | .alloc F, (st, as) =>
    let vals := F (gvals d st as)
    (st ++ vals, (List.range vals.length).map (· + st.length))
  | .share, sa => sa
  | .pick sel, (st, as) => (st, (sel as.length).filterMap (fun i => as[i]?))
  | .write F, (st, as) => (writeAll st (as.zip (F (gvals d st as))), as)

def grunStages {α} (d : α) : List (GStage α) → List α × List Nat → List α × List Nat
  | [], sa => sa
  | s :: ss, sa => grunStages d ss (s.run d sa)

def GStage.writesInput {α} : GStage α → Bool
  | .write _ => true
  | _ => false

def greadOnce {α} (d : α) (ss : List (GStage α)) (st : List α) (held : List Nat) : List α × List Nat := grunStages d ss (st, held)

def gdeliver {α} (d : α) (sa : List α × List Nat) : List α := gvals d sa.1 sa.2

/-- the phase-3 stages are instances -/
def AStage.toG : AStage → GStage Nat
  | .copyMap g => .alloc (List.map g)
  | .share => .share
  | .inPlace g => .write (List.map g)

/-- Scale / Impute / Noise on dense contexts as aliasing stages: the new contexts are NEW objects -/
def FitStage.toG (sd : List Rat → Rat) (s : FitStage) : GStage (List C11.Val) :=
  .alloc (fun rows => match s.apply sd (.dense rows) with | .dense r => r | _ => rows)

/-- the same computation written back into the contexts it was handed -/
def FitStage.toGInPlace (sd : List Rat → Rat) (s : FitStage) : GStage (List C11.Val) :=
  .write (fun rows => match s.apply sd (.dense rows) with | .dense r => r | _ => rows)

/-- which of the delivered objects are objects that existed before the read (`some address`) and which are new
(`none`): the pattern the harness compares with Python object identities -/
def identityPattern (n0 : Nat) (out : List Nat) : List (Option Nat) := out.map (fun a => if a < n0 then some a else none)

/-! # Phase 5: the stage table — which classes keep per-object state between reads, and where that state lives in the model.
`Generated/C04Stages.lean` is extracted from the current source on every run; `Lemmas/C04` proves that it equals these
definitions (and that `stepObj` / `finalized` / `keptByMaterialize` are the extracted constants and predicate). -/

/-- how the model represents the attributes a class writes outside `__init__` -/
inductive StateRep
  /-- `Node.cache … (st : CacheSt)` -/
  | cacheSt
  /-- `Node.finalize p (isempty : Option Bool)` -/
  | isempty
  /-- Densify's table (`feed`, `feedHistory`) -/
  | lookup
  /-- `Src.started` (params before / after a started read) -/
  | started
  /-- written, but never read back into anything a read or `params` returns (timers, a debugging copy) -/
  | unobserved
deriving DecidableEq, Repr

structure StageRow where
  /-- "env" = environments/filters.py, "pipe" = pipes/filters.py, "src" = supervised / synthetics / serialized -/
  file : String
  cls : String
  attrs : List String
  rep : StateRep
deriving DecidableEq, Repr

/-- every class of the anchored files that keeps state across reads; every other class is a stateless stage
(`Node.pure` / `Filt` / content / fit stage) or a re-iterable source -/
def stageTable : List StageRow :=
  [⟨"env", "Impute", ["_times"], .unobserved⟩,
   ⟨"env", "Densify", ["_lookup"], .lookup⟩,
   ⟨"env", "EmptyCheck", ["_isempty"], .isempty⟩,
   ⟨"pipe", "Cache", ["_cache", "_iter"], .cacheSt⟩,
   ⟨"src", "SupervisedSimulation", ["_params"], .started⟩,
   ⟨"src", "NeighborsSyntheticSimulation", ["worlds"], .unobserved⟩]

def stageRows (file : String) : List (String × List String) :=
  (stageTable.filter (fun r => r.file == file)).map (fun r => (r.cls, r.attrs))

/-- may an instance of a class with these class names (its MRO) change attribute `attr` between reads? -/
def stateAllowed (mro : List String) (attr : String) : Bool :=
  stageTable.any (fun r => mro.contains r.cls && r.attrs.contains attr)

/-- the filter classes the model knows (all of coba/environments/filters.py) -/
def modelEnvClasses : List String :=
  ["Identity", "Take", "Slice", "Shuffle", "Reservoir", "Cache", "Scale", "Impute", "Sparsify", "Densify", "Cycle", "Flatten", "Binary",
   "Sort", "Where", "Riffle", "Noise", "Params", "Grounded", "Repr", "Batch", "Unbatch", "BatchSafe", "Harden", "Chunk", "Logged",
   "Mutable", "OpeRewards", "EmptyCheck", "Finalize"]

/-- iterators / generators / defaultdicts a filter creates in `__init__` and keeps: only Densify's look-up table -/
def modelEnvHeld : List (String × String × String) := [("Densify", "_lookup", "defaultdict")]

/-- the node `Environments.cache()` (and `chunk()`) appends: `Cache(25)` -/
def shortcutCacheNode : Node := .cache (some 25) false .unread
/-- the node `Environments.materialize()` appends: `pipes.Cache(None, True)` -/
def materializeCacheNode : Node := .cache none true .unread

def Node.prot : Node → Bool
  | .cache _ p _ => p
  | _ => false

/-- `save()` writes batches of `saveBatchModel + 1` interactions (`saveBatches saveBatchModel`) -/
def saveBatchModel : Nat := 999
/-- logged input: `Shuffle` uses `seed * 3.21` (the harness computes the permutations for `seed·(321/100)^d`) -/
def loggedSeedFactor : Nat × Nat := (321, 100)
def loggedKeys : List String := ["action", "reward"]

/-! ## Phase 5: Noise on content with the draws of `CobaRandom(seed)` (Model/C05).  `Noise(context=('i', lo, hi), seed)`:
`rng = CobaRandom(seed)` at the start of every `filter` call; every number of a context becomes `x + rng.randint(lo, hi)`, in
order; `None` and strings draw nothing (`_noise`). -/
def noiseIntRow (lo hi : Int) : Nat → List C11.Val → Nat × List C11.Val
  | s, [] => (s, [])
  | s, .num q :: vs =>
    let r := noiseIntRow lo hi (C05.randint s lo hi).1 vs
    (r.1, .num (q + ((C05.randint s lo hi).2 : Rat)) :: r.2)
  | s, .nan :: vs =>
    let r := noiseIntRow lo hi (C05.randint s lo hi).1 vs
    (r.1, .nan :: r.2)
  | s, v :: vs =>
    let r := noiseIntRow lo hi s vs
    (r.1, v :: r.2)

def FitStage.noiseInt (seed lo hi : Int) : FitStage := .noise (noiseIntRow lo hi) (C05.normInt seed)

/-- does `_noise` call the noiser on this value (`isinstance(value, (int, float))`) -/
def drawsNoise : C11.Val → Bool
  | .num _ => true
  | .nan => true
  | _ => false

def iterNext : Nat → Nat → Nat
  | 0, s => s
  | n + 1, s => iterNext n (C05.next s)

/-! ## Phase 6: what runs when a read is ABANDONED.  A read that is dropped after k items is a generator closed while it is suspended
at a `yield`: CPython raises `GeneratorExit` (a `BaseException`, not an `Exception`) at that `yield` in every generator of the
pipeline.  The session model (`Demand.pull k`, `touchN`) assumes that NO code of any stage runs then: the fields stay as they were
at the `yield`.  That is true exactly when no `try` around a `yield` has a `finally` or a handler that catches `GeneratorExit`
(bare `except`, `BaseException`, `GeneratorExit`) and every `with` around a `yield` only releases a resource.  The rows below are
every `try` / `with` statement around a `yield` in the anchored files (extracted from the source on every run: `Generated.abandonRows`). -/
structure TryRow where
  file : String
  fn : String
  /-- "try" (names = the handlers' exception classes) or "with" (names = the context managers) -/
  kind : String
  names : List String
  fin : Bool
deriving DecidableEq, Repr

/-- does `except <h>:` catch the `GeneratorExit` of a closed generator -/
def catchesExit (h : String) : Bool := h == "<bare>" || h == "BaseException" || h == "GeneratorExit"

/-- stage code runs when the generator is closed inside this statement -/
def TryRow.runsOnAbandon (r : TryRow) : Bool := r.kind == "try" && (r.fin || r.names.any catchesExit)

/-- context managers that only release a file handle / stop a timer (no field of any pipe object) -/
def resourceManagers : List String :=
  ["ZipFile(self._zip)", "z.open(self._member)", "opener(self._path, self._mode)", "CobaContext.logger.time('Materializing environment...')"]

def TryRow.silent (r : TryRow) : Bool := !r.runsOnAbandon && (r.kind != "with" || r.names.all (fun m => resourceManagers.contains m))

def abandonTable : List TryRow :=
  [⟨"coba/environments/serialized.py", "ZipMemberToObjects.read", "try", ["EOFError"], false⟩,
   ⟨"coba/environments/serialized.py", "ZipMemberToObjects.read", "with", ["ZipFile(self._zip)"], false⟩,
   ⟨"coba/environments/serialized.py", "ZipMemberToObjects.read", "with", ["z.open(self._member)"], false⟩,
   ⟨"coba/environments/serialized.py", "EnvironmentsToObjects.filter", "with", ["CobaContext.logger.time('Materializing environment...')"], false⟩,
   ⟨"coba/pipes/filters.py", "Cache.filter", "try", ["Exception"], false⟩,
   ⟨"coba/pipes/sources.py", "DiskSource.read", "with", ["opener(self._path, self._mode)"], false⟩,
   ⟨"coba/pipes/sources.py", "QueueSource.read", "try", ["BrokenPipeError", "EOFError", "TypeError"], false⟩]

def TryRow.tuple (r : TryRow) : String × String × String × List String × Bool := (r.file, r.fn, r.kind, r.names, r.fin)

/-- what the driver answers when the harness reports that a source line of `fn` ran while an abandoned read was being closed:
`header` = an `except …:` line was tested (and did not match), `with` = a `with` statement was left, anything else = stage code ran -/
def abandonObsAllowed (file fn kind : String) : Bool :=
  if kind == "header" then abandonTable.any (fun r => r.file == file && r.fn == fn && r.kind == "try" && !r.runsOnAbandon)
  else if kind == "with" then abandonTable.any (fun r => r.file == file && r.fn == fn && r.kind == "with" && r.silent)
  else false

/-- what the code around the `yield`s of `pipes.Cache.filter` does when the generator is closed there: nothing (the source:
`except Exception` does not see `GeneratorExit`), the handler's reset `_iter = _cache = None; raise` (a handler that catches it),
or — hypothetical — a `finally: self._iter = None` -/
inductive ExitAct | nothing | reset | dropIter
deriving DecidableEq, Repr

def cacheExitAct (handlers : List String) : ExitAct := if handlers.any catchesExit then .reset else .nothing

def cacheStepX (x : ExitAct) (sz : Option Nat) (c r : List Item) : Demand → CacheSt × Demand
  | .pull k =>
    match x with
    | .nothing => cacheStep sz c r (.pull k)
    | .reset => (.unread, (cacheStep sz c r (.pull k)).2)
    | .dropIter =>
      match cacheStep sz c r (.pull k) with
      | (.prog c' _, d) => (.done c', d)
      | p => p
  | d => cacheStep sz c r d

/-- one read session of a `pipes.Cache` over the upstream sequence `u`, driven as far as `d` (the cache case of `nodeStep`,
with the exit action made explicit) -/
def cacheSessX (x : ExitAct) (sz : Option Nat) (u : List Item) (st : CacheSt) (d : Demand) : CacheSt :=
  match d, st with
  | .none, st => st
  | _, .done c => .done c
  | d, .unread => (cacheStepX x sz [] u d).1
  | d, .prog c r => (cacheStepX x sz c r d).1

/-- the buffer together with what the saved iterator still holds is the upstream sequence -/
def CacheOK (u : List Item) : CacheSt → Prop
  | .unread => True
  | .prog c r => c ++ r = u
  | .done c => c = u


end Coba.C04
