/-
C10 — Changing representation never changes which action earns which reward.

Executable model of coba's representation filters (coba/environments/filters.py: Repr, Flatten,
Sparsify, Densify, Noise, Batch/Unbatch, Harden, Finalize; coba/pipes/rows.py: EncodeCatRows,
SparseDense; coba/pipes/filters.py: Flatten; coba/primitives.py: the reward classes) on a small
universe of Python values, and the specification "the i-th action keeps its reward".

Import-free apart from the finished C05 model (Densify's look-up table is filled from
`CobaRandom(1).shuffle(range(n_feats))`).
-/
import CobaVerif.Model.C05

namespace Coba.C10

/-! ## Python values -/

/-- the values that occur as contexts / actions / features -/
inductive Val where
  | none
  | num (q : Rat)
  | str (s : String)
  /-- `Categorical(value, levels)` (a `str` subclass: compares as its string) -/
  | cat (s : String) (levels : List String)
  | list (xs : List Val)
  | tuple (xs : List Val)
  /-- `dict` with string keys, insertion ordered, keys unique -/
  | dict (kvs : List (String × Val))
  /-- `coba.pipes.SparseDense(values, length)`: a lazy dense row, zero where no value is stored -/
  | lazy (kvs : List (Nat × Val)) (len : Nat)
  deriving Repr, Inhabited

inductive Err where
  | keyError | indexError | typeError | valueError | attributeError | zeroDivision | cobaException
  /-- the input left the part of Python's behaviour that the model covers (e.g. `str(1.5)`) -/
  | unmodelled
  deriving Repr, DecidableEq, Inhabited

def lookupS (k : String) : List (String × Val) → Option Val
  | [] => none
  | (k', v) :: r => if k' == k then some v else lookupS k r

def lookupN (k : Nat) : List (Nat × Val) → Option Val
  | [] => none
  | (k', v) :: r => if k' == k then some v else lookupN k r

/-- `d[k] = v` on an insertion-ordered dict -/
def dictSet (k : String) (v : Val) : List (String × Val) → List (String × Val)
  | [] => [(k, v)]
  | (k', v') :: r => if k' == k then (k', v) :: r else (k', v') :: dictSet k v r

def dictErase (k : String) : List (String × Val) → List (String × Val)
  | [] => []
  | (k', v') :: r => if k' == k then r else (k', v') :: dictErase k r

def natSet (k : Nat) (v : Val) : List (Nat × Val) → List (Nat × Val)
  | [] => [(k, v)]
  | (k', v') :: r => if k' == k then (k', v) :: r else (k', v') :: natSet k v r

def isZero : Val → Bool
  | .num q => q == 0
  | _ => false

/-- element `i` of a SparseDense row -/
def lazyAt (kvs : List (Nat × Val)) (i : Nat) : Val := (lookupN i kvs).getD (.num 0)

/-- `list(SparseDense)` -/
def expand (kvs : List (Nat × Val)) (len : Nat) : List Val := (List.range len).map (lazyAt kvs)

/-- are all positions `i, i+1, …` of `ys` that are *not* stored in `kvs` zero, and is `ys` exactly
`len - i` long?  (the implicit zeros of a SparseDense against a concrete sequence) -/
def zerosMatch (kvs : List (Nat × Val)) : Nat → List Val → Bool
  | _, [] => true
  | i, y :: ys => ((lookupN i kvs).isSome || isZero y) && zerosMatch kvs (i + 1) ys

/-- the elements of a dense value as a concrete list (`none` for non-dense values) -/
def denseItems : Val → Option (List Val)
  | .list xs => some xs
  | .tuple xs => some xs
  | .lazy kvs n => some (expand kvs n)
  | _ => none

/-- `"key" == value` (a plain string against any value) -/
def strEqVal (a : String) : Val → Bool
  | .str c => a == c
  | .cat c _ => a == c
  | _ => false

/-- `all(map(eq, SparseDense, dict))` iterates the dict's *keys* (and a str's characters) -/
def keysMatchLazy (kvs : List (Nat × Val)) : Nat → List String → Bool
  | _, [] => true
  | i, k :: ks => strEqVal k (lazyAt kvs i) && keysMatchLazy kvs (i + 1) ks

/-! ### Python `==`

`Categorical == str` compares the strings; `list != tuple`; a `SparseDense` equals any list /
tuple / SparseDense with the same elements (`Dense_.__eq__`, reached through reflection when it
is the right operand); dicts compare as mappings.  Structural recursion on the first argument. -/
mutual
def pyEq : Val → Val → Bool
  | .none, b => match b with | .none => true | _ => false
  | .num a, b => match b with | .num c => a == c | _ => false
  | .str a, b => match b with
    | .str c => a == c | .cat c _ => a == c
    | .lazy kvs n => a.length == n && keysMatchLazy kvs 0 (a.toList.map String.singleton)
    | _ => false
  | .cat a _, b => match b with
    | .str c => a == c | .cat c _ => a == c
    | .lazy kvs n => a.length == n && keysMatchLazy kvs 0 (a.toList.map String.singleton)
    | _ => false
  | .list xs, b =>
    match b with
    | .list ys => pyEqL xs ys
    | .lazy kvs n => xs.length == n && pyEqIdx xs 0 kvs
    | _ => false
  | .tuple xs, b =>
    match b with
    | .tuple ys => pyEqL xs ys
    | .lazy kvs n => xs.length == n && pyEqIdx xs 0 kvs
    | _ => false
  | .dict kvs, b =>
    match b with
    | .dict kvs' => kvs.length == kvs'.length && pyEqD kvs kvs'
    | .lazy kvs' n => kvs.length == n && keysMatchLazy kvs' 0 (kvs.map (·.1))
    | _ => false
  | .lazy kvs n, b =>
    match denseItems b with
    | some ys => ys.length == n && pyEqZ kvs ys && zerosMatch kvs 0 ys
    | none => match b with
      | .dict d => d.length == n && keysMatchLazy kvs 0 (d.map (·.1))
      | .str a => a.length == n && keysMatchLazy kvs 0 (a.toList.map String.singleton)
      | .cat a _ => a.length == n && keysMatchLazy kvs 0 (a.toList.map String.singleton)
      | _ => false
def pyEqL : List Val → List Val → Bool
  | [], ys => ys.isEmpty
  | x :: xs, ys => match ys with | y :: ys' => pyEq x y && pyEqL xs ys' | [] => false
/-- concrete sequence (from position `i`) against the stored values of a SparseDense -/
def pyEqIdx : List Val → Nat → List (Nat × Val) → Bool
  | [], _, _ => true
  | x :: xs, i, kvs => pyEq x (lazyAt kvs i) && pyEqIdx xs (i + 1) kvs
/-- every entry of the left dict is in the right one with an equal value -/
def pyEqD : List (String × Val) → List (String × Val) → Bool
  | [], _ => true
  | (k, v) :: r, d => (match lookupS k d with | some w => pyEq v w | none => false) && pyEqD r d
/-- every stored value of a SparseDense equals the element at its position -/
def pyEqZ : List (Nat × Val) → List Val → Bool
  | [], _ => true
  | (k, v) :: r, ys => (match ys[k]? with | some w => pyEq v w | none => false) && pyEqZ r ys
end

/-! ### structural identity (Lean `=`, decidable by hand because `Val` is a nested inductive) -/
mutual
def Val.same : Val → Val → Bool
  | .none, b => match b with | .none => true | _ => false
  | .num a, b => match b with | .num c => a == c | _ => false
  | .str a, b => match b with | .str c => a == c | _ => false
  | .cat a la, b => match b with | .cat c lc => a == c && la == lc | _ => false
  | .list xs, b => match b with | .list ys => Val.sameL xs ys | _ => false
  | .tuple xs, b => match b with | .tuple ys => Val.sameL xs ys | _ => false
  | .dict kvs, b => match b with | .dict kvs' => Val.sameD kvs kvs' | _ => false
  | .lazy kvs n, b => match b with | .lazy kvs' n' => n == n' && Val.sameZ kvs kvs' | _ => false
def Val.sameL : List Val → List Val → Bool
  | [], ys => ys.isEmpty
  | x :: xs, ys => match ys with | y :: ys' => Val.same x y && Val.sameL xs ys' | [] => false
def Val.sameD : List (String × Val) → List (String × Val) → Bool
  | [], ys => ys.isEmpty
  | (k, x) :: xs, ys => match ys with | (k', y) :: ys' => k == k' && Val.same x y && Val.sameD xs ys' | [] => false
def Val.sameZ : List (Nat × Val) → List (Nat × Val) → Bool
  | [], ys => ys.isEmpty
  | (k, x) :: xs, ys => match ys with | (k', y) :: ys' => k == k' && Val.same x y && Val.sameZ xs ys' | [] => false
end

/-- `xs == ys` for two Python lists of values -/
def pyEqList (xs ys : List Val) : Bool := pyEqL xs ys

/-- `actions.index(a)`: first position whose element `== a` -/
def indexOfFrom (a : Val) : List Val → Nat → Option Nat
  | [], _ => none
  | x :: xs, i => if pyEq x a then some i else indexOfFrom a xs (i + 1)

def indexOf (as : List Val) (a : Val) : Option Nat := indexOfFrom a as 0

/-- pairwise distinct under `==` (both directions) and every element equal to itself -/
def distinctB (as : List Val) : Bool :=
  (List.range as.length).all fun i => (List.range as.length).all fun j =>
    match as[i]?, as[j]? with
    | some a, some b => pyEq a b == (i == j)
    | _, _ => true

mutual
def hashable : Val → Bool
  | .none => true
  | .num _ => true
  | .str _ => true
  | .cat _ _ => true
  | .tuple xs => hashableL xs
  | _ => false
def hashableL : List Val → Bool
  | [] => true
  | x :: xs => hashable x && hashableL xs
end

/-! ## Rewards -/

inductive Rew where
  /-- a plain sequence of rewards (`isList = false`: a tuple) -/
  | seq (isList : Bool) (rs : List Rat)
  | binary (argmax : Val) (value : Rat)
  /-- `DiscreteReward(actions, rewards, default=…)` / `DiscreteReward({action: reward})` -/
  | discrete (as : List Val) (rs : List Rat) (dflt : Rat) (isDict : Bool)
  | hamming (argmax : List Val)
  | l1 (argmax : Rat)
  /-- an opaque Python function: a table on the values it was written for, else a default -/
  | fn (table : List (Val × Rat)) (dflt : Rat)
  deriving Repr, Inhabited

def Rew.isCallable : Rew → Bool
  | .seq _ _ => false
  | _ => true

def chars (s : String) : List Val := s.toList.map fun c => Val.str (String.singleton c)

/-- what `for x in value` yields -/
def iterItems : Val → Except Err (List Val)
  | .list xs => .ok xs
  | .tuple xs => .ok xs
  | .lazy kvs n => .ok (expand kvs n)
  | .dict kvs => .ok (kvs.map fun p => Val.str p.1)
  | .str s => .ok (chars s)
  | .cat s _ => .ok (chars s)
  | _ => .error .typeError

def tableLookup (a : Val) : List (Val × Rat) → Option Rat
  | [] => none
  | (k, v) :: r => if pyEq k a then some v else tableLookup a r

def ratAbs (q : Rat) : Rat := if q < 0 then -q else q

/-- `rewards(action)` -/
def callRew (r : Rew) (a : Val) : Except Err Rat :=
  match r with
  | .seq _ _ => .error .typeError
  | .binary am v => .ok (if pyEq am a then v else 0)
  | .discrete as rs d isDict =>
    if isDict && !hashable a then .error .typeError else
    match indexOf as a with
    | some j => match rs[j]? with | some x => .ok x | none => .error .indexError
    | none => .ok d
  | .hamming am =>
    match iterItems a with
    | .error e => .error e
    | .ok items =>
      let ni := (items.filter fun x => am.any fun y => pyEq y x).length
      let nu := am.length + items.length - ni
      if nu == 0 then .error .zeroDivision else .ok ((ni : Rat) / (nu : Rat))
  | .l1 am => match a with | .num x => .ok (-(ratAbs (x - am))) | _ => .error .typeError
  | .fn table d => .ok ((tableLookup a table).getD d)

/-- the observable: `[rewards(a) for a in actions]`, or the sequence itself -/
def obsOf (r : Rew) (acts : List Val) : List (Except Err Rat) :=
  match r with
  | .seq _ rs => rs.map .ok
  | _ => acts.map (callRew r)

/-! ## Interactions -/

structure Inter where
  context : Val := .none
  actions : Option (List Val) := none
  rewards : Option Rew := none
  feedbacks : Option Rew := none
  /-- logged interactions: the logged action, its reward and probability -/
  action : Option Val := none
  reward : Option Rat := none
  probability : Option Rat := none
  deriving Repr, Inhabited

def obsRewards (I : Inter) : Option (List (Except Err Rat)) :=
  match I.rewards, I.actions with
  | some r, some as => some (obsOf r as)
  | _, _ => none

def obsFeedbacks (I : Inter) : Option (List (Except Err Rat)) :=
  match I.feedbacks, I.actions with
  | some r, some as => some (obsOf r as)
  | _, _ => none

/-- `actions.index(action)` of a logged interaction (`some none` = not a member) -/
def loggedIndex (I : Inter) : Option (Option Nat) :=
  match I.action, I.actions with
  | some a, some as => some (indexOf as a)
  | _, _ => none

/-! ## The specification

"After the filter the i-th action still receives the reward (and feedback) the i-th action
received before; the logged action is the same member of the action set; its logged reward and
probability are unchanged." -/

def obsEq : List (Except Err Rat) → List (Except Err Rat) → Bool
  | [], [] => true
  | .ok a :: xs, .ok b :: ys => a == b && obsEq xs ys
  | _, _ => false

def optObsEq : Option (List (Except Err Rat)) → Option (List (Except Err Rat)) → Bool
  | none, none => true
  | some a, some b => obsEq a b
  | _, _ => false

/-- decidable form of the specification for one interaction -/
def alignedB (I J : Inter) : Bool :=
  optObsEq (obsRewards I) (obsRewards J) && optObsEq (obsFeedbacks I) (obsFeedbacks J)
  && (match loggedIndex I with
      | some (some k) => loggedIndex J == some (some k)
      | _ => true)
  && (I.reward == J.reward) && (I.probability == J.probability)

def alignedStreamB : List Inter → List Inter → Bool
  | [], [] => true
  | i :: is, j :: js => alignedB i j && alignedStreamB is js
  | _, _ => false

/-! ## Which of the recorded defects the tree under test still has

`true` = repaired (the behaviour of the proposed `fixes/C10-*.diff`).  The theorems are about
`Cfg.fixed`; `Cfg.asIs` is the pinned commit and carries the `_counterexample`s. -/
structure Cfg where
  /-- Sparsify/Densify(action=True) re-key functional rewards/feedbacks -/
  fixRekey : Bool
  /-- Repr encodes the logged action with the *action* mode -/
  fixReprLogged : Bool
  /-- Repr re-keys a DiscreteReward through its values at the actions, not positionally -/
  fixReprDiscrete : Bool
  /-- Noise(action) also maps the logged action to its noisy member -/
  fixNoiseLogged : Bool
  /-- Noise(action) also re-keys functional feedbacks -/
  fixNoiseFeedbacks : Bool
  /-- Flatten also flattens the logged action -/
  fixFlattenLogged : Bool
  /-- Harden (in Finalize) only hardens the lazy actions of a mixed action set -/
  fixHardenMixed : Bool
  deriving Repr, Inhabited

def Cfg.fixed : Cfg := ⟨true, true, true, true, true, true, true⟩
def Cfg.asIs : Cfg := ⟨false, false, false, false, false, false, false⟩

/-! ## Re-keying: how a filter carries the reward function over to the new actions -/

inductive Policy where
  /-- leave the object as it is -/
  | keep
  /-- `DiscreteReward(new_actions, [old(a) for a in old_actions])` -/
  | generic
  /-- Repr: remap a BinaryReward's argmax, (as-is: reuse a DiscreteReward's values positionally), else generic -/
  | reprStyle (fixDiscrete : Bool)
  /-- Finalize: `DiscreteReward(new_actions, the_list)` -/
  | wrapSeq
  /-- Noise on a sequence: `list(rewards)` -/
  | toList
  /-- Cycle: `l[-1%n:] + l[:-1%n]` on a sequence, `DiscreteReward(actions, rotate(values))` on a function.
  The one policy that moves rewards between actions *on purpose* -/
  | rotate (n : Nat)
  deriving Repr, DecidableEq, Inhabited

def mapM' {α β} (f : α → Except Err β) : List α → Except Err (List β)
  | [] => .ok []
  | a :: as => match f a with
    | .error e => .error e
    | .ok b => match mapM' f as with
      | .error e => .error e
      | .ok bs => .ok (b :: bs)

/-- `rotate = lambda l: l[-1%n:] + l[:-1%n]` (for a list of length `n`: the last element moves to the front) -/
def rotList {α} (n : Nat) (l : List α) : List α :=
  if n == 0 then l else l.drop (n - 1) ++ l.take (n - 1)

def genericRew (r : Rew) (oldActs newActs : List Val) : Except Err Rew :=
  match r with
  | .seq _ _ => .error .typeError
  | _ => match mapM' (callRew r) oldActs with
    | .error e => .error e
    | .ok vals => if vals.length == newActs.length then .ok (.discrete newActs vals 0 false) else .error .cobaException

def rekey (p : Policy) (r : Rew) (oldActs newActs : List Val) : Except Err Rew :=
  match p with
  | .keep => .ok r
  | .generic => genericRew r oldActs newActs
  | .reprStyle fixD =>
    match r with
    | .binary am v =>
      match indexOf oldActs am with
      | none => .error .valueError
      | some j => match newActs[j]? with
        | some a => .ok (.binary a v)
        | none => .error .indexError
    | .discrete _ rs _ _ =>
      if fixD then genericRew r oldActs newActs
      else if rs.length == newActs.length then .ok (.discrete newActs rs 0 false) else .error .cobaException
    | _ => genericRew r oldActs newActs
  | .wrapSeq =>
    match r with
    | .seq _ rs => if rs.length == newActs.length then .ok (.discrete newActs rs 0 false) else .error .cobaException
    | _ => .error .typeError
  | .toList =>
    match r with
    | .seq _ rs => .ok (.seq true rs)
    | _ => .error .typeError
  | .rotate n =>
    match r with
    | .seq b rs => .ok (.seq b (rotList n rs))
    | _ => match mapM' (callRew r) oldActs with
      | .error e => .error e
      | .ok vals => if vals.length == oldActs.length then .ok (.discrete oldActs (rotList n vals) 0 false) else .error .cobaException

/-- what a filter decided for one interaction -/
structure Plan where
  context : Val
  actions : Option (List Val)
  action : Option Val
  polR : Policy
  polF : Policy
  deriving Repr, Inhabited

def rekeyOpt (p : Policy) (r : Option Rew) (oldActs newActs : Option (List Val)) : Except Err (Option Rew) :=
  match p with
  | .keep => .ok r
  | _ =>
    match r with
    | none => .error .keyError          -- `old[target]` on an interaction that lacks the target
    | some r =>
      match oldActs, newActs with
      | some o, some n => match rekey p r o n with | .ok r' => .ok (some r') | .error e => .error e
      | _, _ => .error .keyError

def applyPlan (I : Inter) (p : Plan) : Except Err Inter :=
  match rekeyOpt p.polR I.rewards I.actions p.actions with
  | .error e => .error e
  | .ok r' =>
    match rekeyOpt p.polF I.feedbacks I.actions p.actions with
    | .error e => .error e
    | .ok f' => .ok { I with context := p.context, actions := p.actions, action := p.action, rewards := r', feedbacks := f' }

def applyPlans : List Inter → List Plan → Except Err (List Inter)
  | [], [] => .ok []
  | i :: is, p :: ps =>
    match applyPlan i p with
    | .error e => .error e
    | .ok j => match applyPlans is ps with
      | .error e => .error e
      | .ok js => .ok (j :: js)
  | _, _ => .error .indexError

/-! ## EncodeCatRows (coba/pipes/rows.py) -/

inductive Mode where
  | onehot | onehotTuple | string
  deriving Repr, DecidableEq, Inhabited

/-- the "catkeys" structure Python builds: an int key, a str key, or a Python list -/
inductive CK where
  | i (n : Nat)
  | s (k : String)
  | l (xs : List CK)
  deriving Repr, Inhabited

mutual
/-- `catkey(o)` -/
def catkey : Val → List CK
  | .dict kvs => catkeyD kvs
  | .list xs => (catkeyL xs 0).reverse
  | .tuple xs => (catkeyL xs 0).reverse
  | _ => []
def catkeyD : List (String × Val) → List CK
  | [] => []
  | (k, v) :: rest =>
    match v with
    | .cat _ _ => CK.s k :: catkeyD rest
    | _ =>
      let K := catkey v
      if K.isEmpty then catkeyD rest else CK.l [CK.s k, CK.l K] :: catkeyD rest
def catkeyL : List Val → Nat → List CK
  | [], _ => []
  | v :: rest, i =>
    match v with
    | .cat _ _ => CK.i i :: catkeyL rest (i + 1)
    | _ =>
      let K := catkey v
      if K.isEmpty then catkeyL rest (i + 1) else CK.l [CK.i i, CK.l K] :: catkeyL rest (i + 1)
end

def onehotVec (idx n : Nat) : List Val := (List.range n).map fun i => Val.num (if i == idx then 1 else 0)

def levelIndex (s : String) : List String → Nat → Option Nat
  | [], _ => none
  | l :: ls, i => if l == s then some i else levelIndex s ls (i + 1)

/-- `value.as_onehot` -/
def onehotOf : Val → Except Err (List Val)
  | .cat s ls => match levelIndex s ls 0 with
    | some i => .ok (onehotVec i ls.length)
    | none => .error .valueError
  | _ => .error .attributeError

/-- `str(value)` for the values whose `str` the model covers -/
def strOf : Val → Except Err Val
  | .cat s _ => .ok (.str s)
  | .str s => .ok (.str s)
  | _ => .error .unmodelled

def getItem (o : Val) (k : CK) : Except Err Val :=
  match o, k with
  | .list xs, .i n => match xs[n]? with | some v => .ok v | none => .error .indexError
  | .tuple xs, .i n => match xs[n]? with | some v => .ok v | none => .error .indexError
  | .dict kvs, .s key => match lookupS key kvs with | some v => .ok v | none => .error .keyError
  | .dict _, .i _ => .error .keyError
  | _, _ => .error .typeError

def setItem (o : Val) (k : CK) (v : Val) : Except Err Val :=
  match o, k with
  | .list xs, .i n => if n < xs.length then .ok (.list (xs.set n v)) else .error .indexError
  | .dict kvs, .s key => .ok (.dict (dictSet key v kvs))
  | _, _ => .error .typeError

/-- the dict branch of the flat one-hot: `for i,v in enumerate(h): if i != 0: o[f'{k}_{v}'] = i` -/
def dictOnehot (k : String) (h : List Val) (kvs : List (String × Val)) : List (String × Val) :=
  let rec go : List Val → Nat → List (String × Val) → List (String × Val)
    | [], _, d => d
    | hv :: rest, i, d =>
      let d' := if i == 0 then d else dictSet (k ++ "_" ++ (if isZero hv then "0" else "1")) (.num (i : Rat)) d
      go rest (i + 1) d'
  go h 0 kvs

/-- the body of `catset` for one key -/
def encodeAt (m : Mode) (o : Val) (key : CK) : Except Err Val :=
  match key with
  | .l _ => .error .typeError
  | _ =>
    match m with
    | .string =>
      match getItem o key with
      | .error e => .error e
      | .ok v => match strOf v with
        | .error e => .error e
        | .ok s => setItem o key s
    | .onehotTuple =>
      match getItem o key with
      | .error e => .error e
      | .ok v => match onehotOf v with
        | .error e => .error e
        | .ok h => setItem o key (.tuple h)
    | .onehot =>
      match o, key with
      | .list xs, .i n =>
        match xs[n]? with
        | none => .error .indexError
        | some v => match onehotOf v with
          | .error e => .error e
          | .ok h => .ok (.list (xs.take n ++ h ++ xs.drop (n + 1)))
      | .dict kvs, .s k =>
        match lookupS k kvs with
        | none => .error .keyError
        | some v => match onehotOf v with
          | .error e => .error e
          | .ok h => .ok (.dict (dictOnehot k h (dictErase k kvs)))
      | .dict _, .i _ => .error .keyError
      | _, _ => .error .typeError

def encodeKeys (m : Mode) : Val → List CK → Except Err Val
  | o, [] => .ok o
  | o, k :: ks => match encodeAt m o k with
    | .error e => .error e
    | .ok o' => encodeKeys m o' ks

/-- `row = list(row) if isinstance(row,tuple) else copy(row)` -/
def prepRow : Val → Val
  | .tuple xs => .list xs
  | v => v

def isContainer : Val → Bool
  | .list _ => true
  | .tuple _ => true
  | .dict _ => true
  | _ => false

/-- `catset(o,k)`; Python decides by `len(k) == 2 and isinstance(k[1],list)` whether `k` is a
(key, sub-keys) pair or a list of keys — a str key is iterated character by character -/
def catset (m : Mode) : Val → CK → Except Err Val
  | _, .i _ => .error .typeError
  | o, .s k => encodeKeys m o (k.toList.map fun c => CK.s (String.singleton c))
  | o, .l xs =>
    match xs with
    | [k, .l K] =>
      match k with
      | .l _ => .error .typeError
      | _ =>
        match getItem o k with
        | .error e => .error e
        | .ok row =>
          if !isContainer row then .error .typeError else
          match catset m (prepRow row) (.l K) with
          | .error e => .error e
          | .ok row' => setItem o k row'
    | _ => encodeKeys m o xs

def catsetAll (m : Mode) : Val → List CK → Except Err Val
  | o, [] => .ok o
  | o, k :: ks => match catset m o k with
    | .error e => .error e
    | .ok o' => catsetAll m o' ks

def isCK_i : CK → Bool
  | .i _ => true
  | _ => false

def isCollection : Val → Bool
  | .list _ => true
  | .tuple _ => true
  | .dict _ => true
  | .lazy _ _ => true
  | _ => false

def encodeValue (m : Mode) (v : Val) : Except Err Val :=
  match m with
  | .string => strOf v
  | _ => match onehotOf v with
    | .ok h => .ok (.tuple h)
    | .error e => .error e

/-- `EncodeCatRows(tipe).filter(rows)` -/
def encodeRows (mode : Option Mode) (rows : List Val) : Except Err (List Val) :=
  match mode with
  | none => .ok rows
  | some m =>
    match rows with
    | [] => .ok []
    | first :: _ =>
      if isCollection first then
        let cks := catkey first
        match cks with
        | [] => .ok rows
        | c0 :: _ =>
          if isCK_i c0 then mapM' (fun row => catset m (prepRow row) (.l cks)) rows
          else mapM' (fun row => catsetAll m (prepRow row) cks) rows
      else
        match first with
        | .cat _ _ => mapM' (encodeValue m) rows
        | _ => .ok rows

/-! ## pipes.Flatten (coba/pipes/filters.py) -/

def isFlattable : Val → Bool
  | .list _ => true
  | .tuple _ => true
  | .lazy _ _ => true
  | .dict _ => true
  | _ => false

def pyLen : Val → Nat
  | .list xs => xs.length
  | .tuple xs => xs.length
  | .lazy _ n => n
  | .dict kvs => kvs.length
  | _ => 0

/-- `flatter_list(row)`: `zip(flattable,row)` truncates -/
def flatterList : List Bool → List Val → Except Err (List Val)
  | [], _ => .ok []
  | _, [] => .ok []
  | f :: fs, r :: rs =>
    match flatterList fs rs with
    | .error e => .error e
    | .ok rest =>
      if f then match iterItems r with
        | .error e => .error e
        | .ok items => .ok (items ++ rest)
      else .ok (r :: rest)

def enumFrom' : Nat → List Val → List (Nat × Val)
  | _, [] => []
  | i, v :: vs => (i, v) :: enumFrom' (i + 1) vs

/-- `zip([f"{k}_{i}" for i in range(n)], items)` -/
def zipNames (k : String) (n : Nat) (items : List Val) : List (String × Val) :=
  (enumFrom' 0 (items.take n)).map fun p => (k ++ "_" ++ toString p.1, p.2)

/-- the dict comprehension of the sparse branch: flattable keys are expanded to `k_i`, zero
values are dropped, later duplicates overwrite -/
def flattenDict (flat : List (String × Nat)) : List (String × Val) → List (String × Val) → Except Err (List (String × Val))
  | [], acc => .ok acc
  | (k, v) :: rest, acc =>
    match flat.lookup k with
    | some n =>
      match iterItems v with
      | .error e => .error e
      | .ok items =>
        let pairs := zipNames k n items
        let acc' := pairs.foldl (fun d p => if isZero p.2 then d else dictSet p.1 p.2 d) acc
        flattenDict flat rest acc'
    | none => flattenDict flat rest (if isZero v then acc else dictSet k v acc)

/-- `pipes.Flatten().filter(rows)` -/
def flattenRows (rows : List Val) : Except Err (List Val) :=
  match rows with
  | [] => .ok []
  | first :: _ =>
    match first with
    | .dict kvs =>
      let flat := (kvs.filter fun p => isFlattable p.2).map fun p => (p.1, pyLen p.2)
      if flat.isEmpty then .ok rows else
      mapM' (fun row => match row with
        | .dict d => match flattenDict flat d [] with | .ok d' => .ok (.dict d') | .error e => .error e
        | _ => .error .attributeError) rows
    | _ =>
      match denseItems first with
      | none => .ok rows
      | some items =>
        let flags := items.map isFlattable
        if !flags.any id then .ok rows else
        let asList := match first with | .list _ => true | _ => false
        mapM' (fun row => match iterItems row with
          | .error e => .error e
          | .ok ritems => match flatterList flags ritems with
            | .error e => .error e
            | .ok out => .ok (if asList then Val.list out else Val.tuple out)) rows

/-! ## helpers on streams -/

def firstCallable (get : Inter → Option Rew) (s : List Inter) : Bool :=
  match s with
  | [] => false
  | f :: _ => match get f with | some r => r.isCallable | none => false

def splitBy {α} : List Nat → List α → List (List α)
  | [], _ => []
  | n :: ns, xs => xs.take n :: splitBy ns (xs.drop n)

def allActions (s : List Inter) : Except Err (List (List Val)) :=
  mapM' (fun I => match I.actions with | some a => .ok a | none => .error .keyError) s

def allLogged (s : List Inter) : Except Err (List Val) :=
  mapM' (fun I => match I.action with | some a => .ok a | none => .error .keyError) s

def optPyNe (new old : Option (List Val)) : Bool :=
  match new, old with
  | some n, some o => !pyEqList n o
  | _, _ => false

/-- the repaired filters keep the logged action "the same member": if it is a member of the old
actions, its new form is the corresponding member of the new actions -/
def mapMember (olds news : Option (List Val)) (a fallback : Option Val) : Option Val :=
  match a, olds, news with
  | some x, some o, some n =>
    match indexOf o x with
    | some k => (match n[k]? with | some y => some y | none => fallback)
    | none => fallback
  | _, _, _ => fallback

/-! ## Repr -/

/-- the two ways Repr feeds action lists to EncodeCatRows -/
def reprActions (ca : Mode) (rows : List (List Val)) : Except Err (List (List Val)) :=
  match rows with
  | r0 :: r1 :: _ =>
    if pyEqList r0 r1 then
      -- `yield_prev_action_on_repeat`: every *new* row is encoded on its own
      let rec go : List (List Val) → Option (List Val × List Val) → Except Err (List (List Val))
        | [], _ => .ok []
        | row :: rest, prev =>
          let same := match prev with | some (p, _) => pyEqList row p | none => false
          if same then
            match prev with
            | some (_, y) => match go rest prev with | .ok out => .ok (y :: out) | .error e => .error e
            | none => .error .unmodelled
          else
            match encodeRows (some ca) row with
            | .error e => .error e
            | .ok y => match go rest (some (row, y)) with | .ok out => .ok (y :: out) | .error e => .error e
      go rows none
    else
      match encodeRows (some ca) rows.flatten with
      | .error e => .error e
      | .ok enc => .ok (splitBy (rows.map List.length) enc)
  | _ =>
    match encodeRows (some ca) rows.flatten with
    | .error e => .error e
    | .ok enc => .ok (splitBy (rows.map List.length) enc)

def zipPlans (ctxs : List Val) (actss : List (Option (List Val))) (acts : List (Option Val))
    (pol : Nat → Policy × Policy) : List Plan :=
  (List.range ctxs.length).map fun t =>
    { context := ctxs.getD t .none, actions := actss.getD t none, action := acts.getD t none,
      polR := (pol t).1, polF := (pol t).2 }

def reprPlans (cfg : Cfg) (cc ca : Option Mode) (s : List Inter) : Except Err (List Plan) :=
  match s with
  | [] => .ok []
  | first :: _ =>
    let hasActions := match first.actions with | some (_ :: _) => true | _ => false
    let hasAction := first.action.isSome
    match encodeRows cc (s.map (·.context)) with
    | .error e => .error e
    | .ok ctxs =>
      let actssE : Except Err (List (Option (List Val))) :=
        match ca with
        | some m =>
          if hasActions then
            match allActions s with
            | .error e => .error e
            | .ok rows => match reprActions m rows with
              | .error e => .error e
              | .ok out => .ok (out.map some)
          else .ok (s.map (·.actions))
        | none => .ok (s.map (·.actions))
      match actssE with
      | .error e => .error e
      | .ok actss =>
        let actE : Except Err (List (Option Val)) :=
          if ca.isSome && hasAction then
            match allLogged s with
            | .error e => .error e
            | .ok rows => match encodeRows (if cfg.fixReprLogged then ca else cc) rows with
              | .error e => .error e
              | .ok out => .ok (out.map some)
          else .ok (s.map (·.action))
        match actE with
        | .error e => .error e
        | .ok acts0 =>
          let iter := ca.isSome && hasActions
          let acts := if cfg.fixReprLogged && iter && hasAction then
              (List.range s.length).map fun t =>
                mapMember (s.getD t default).actions (actss.getD t none) (s.getD t default).action (acts0.getD t none)
            else acts0
          let rC := firstCallable (·.rewards) s
          let fC := firstCallable (·.feedbacks) s
          let pol := fun t =>
            let changed := iter && optPyNe (actss.getD t none) ((s.getD t default).actions)
            (if changed && rC then Policy.reprStyle cfg.fixReprDiscrete else Policy.keep,
             if changed && fC then Policy.reprStyle cfg.fixReprDiscrete else Policy.keep)
          .ok (zipPlans ctxs actss acts pol)

/-! ## Flatten -/

def flattenPlans (cfg : Cfg) (s : List Inter) : Except Err (List Plan) :=
  match s with
  | [] => .ok []
  | first :: _ =>
    let hasActions := first.actions.isSome
    let hasAction := first.action.isSome
    match flattenRows (s.map (·.context)) with
    | .error e => .error e
    | .ok ctxs =>
      let actssE : Except Err (List (Option (List Val))) :=
        if hasActions then
          match allActions s with
          | .error e => .error e
          | .ok rows => match flattenRows rows.flatten with
            | .error e => .error e
            | .ok out => .ok ((splitBy (rows.map List.length) out).map some)
        else .ok (s.map (·.actions))
      match actssE with
      | .error e => .error e
      | .ok actss =>
        let actE : Except Err (List (Option Val)) :=
          if cfg.fixFlattenLogged && hasAction then
            match allLogged s with
            | .error e => .error e
            | .ok rows => match flattenRows rows with
              | .error e => .error e
              | .ok out => .ok (out.map some)
          else .ok (s.map (·.action))
        match actE with
        | .error e => .error e
        | .ok acts0 =>
          let acts := if cfg.fixFlattenLogged && hasActions && hasAction then
              (List.range s.length).map fun t =>
                mapMember (s.getD t default).actions (actss.getD t none) (s.getD t default).action (acts0.getD t none)
            else acts0
          let rC := firstCallable (·.rewards) s
          let fC := firstCallable (·.feedbacks) s
          let pol := fun t =>
            let changed := hasActions && optPyNe (actss.getD t none) ((s.getD t default).actions)
            (if changed && rC then Policy.generic else Policy.keep,
             if changed && fC then Policy.generic else Policy.keep)
          .ok (zipPlans ctxs actss acts pol)

/-! ## Sparsify -/

/-- `_make_sparse(value, False, default_header)` -/
def makeSparse (header : String) (v : Val) : Val :=
  match v with
  | .none => .none
  | .dict _ => v
  | _ =>
    match denseItems v with
    | some items => .dict (((enumFrom' 0 items).filter fun p => !isZero p.2).map fun p => (toString p.1, p.2))
    | none => .dict [(header, v)]

/-- did `_make_sparse` build a new object -/
def sparseConverts : Val → Bool
  | .none => false
  | .dict _ => false
  | _ => true

def sparsifyPlans (cfg : Cfg) (c a : Bool) (s : List Inter) : Except Err (List Plan) :=
  let rC := firstCallable (·.rewards) s
  let fC := firstCallable (·.feedbacks) s
  .ok (s.map fun I =>
    let acts' := if a then I.actions.map (·.map (makeSparse "action")) else I.actions
    let changed := cfg.fixRekey && a && (match I.actions with | some as => as.any sparseConverts | none => false)
    { context := if c then makeSparse "context" I.context else I.context,
      actions := acts',
      action := if a then I.action.map (makeSparse "action") else I.action,
      polR := if changed && rC then .generic else .keep,
      polF := if changed && fC then .generic else .keep })

/-! ## Densify -/

inductive DMethod where
  /-- the look-up table lives in the filter object: `prior` = the keys it was already asked for by
  earlier `filter()` calls of the same object, in order -/
  | lookup (prior : List String)
  /-- `crc32(key) % n_feats`, given as a table (the theorems hold for every table) -/
  | hashing (table : List (String × Nat))
  deriving Repr, Inhabited

/-- the infinite stream `for i in rng.shuffle(range(n)): yield i` of `Densify`, first `rounds` rounds -/
def lookupStream (n : Nat) : Nat → Nat → List Nat
  | 0, _ => []
  | rounds + 1, st => let (st', p) := Coba.C05.shuffle st (List.range n); p ++ lookupStream n rounds st'

structure DState where
  table : List (String × Nat) := []
  fresh : List Nat := []

def assocGet (k : String) : List (String × Nat) → Option Nat
  | [] => none
  | (k', v) :: r => if k' == k then some v else assocGet k r

def denseIndex (m : DMethod) (st : DState) (k : String) : Except Err (DState × Nat) :=
  match m with
  | .hashing tbl => match assocGet k tbl with | some i => .ok (st, i) | none => .error .unmodelled
  | .lookup _ =>
    match assocGet k st.table with
    | some i => .ok (st, i)
    | none => match st.fresh with
      | [] => .error .unmodelled
      | i :: rest => .ok ({ table := st.table ++ [(k, i)], fresh := rest }, i)

def denseEntries (m : DMethod) : DState → List (String × Val) → List (Nat × Val) → Except Err (DState × List (Nat × Val))
  | st, [], acc => .ok (st, acc)
  | st, (k, v) :: rest, acc =>
    match denseIndex m st k with
    | .error e => .error e
    | .ok (st', i) => denseEntries m st' rest (natSet i v acc)

/-- `_make_dense(value)` -/
def makeDense (m : DMethod) (n : Nat) (st : DState) (v : Val) : Except Err (DState × Val) :=
  match v with
  | .dict kvs => match denseEntries m st kvs [] with
    | .error e => .error e
    | .ok (st', ents) => .ok (st', .lazy ents n)
  | _ => .ok (st, v)

def makeDenseList (m : DMethod) (n : Nat) : DState → List Val → Except Err (DState × List Val)
  | st, [] => .ok (st, [])
  | st, v :: vs => match makeDense m n st v with
    | .error e => .error e
    | .ok (st', v') => match makeDenseList m n st' vs with
      | .error e => .error e
      | .ok (st'', vs') => .ok (st'', v' :: vs')

def isDict : Val → Bool
  | .dict _ => true
  | _ => false

/-- Densify over a stream from a given look-up state; returns the plans *and the state the filter
object is left in* (the only thing a coba representation filter carries from one `filter()` call to the next) -/
def densifyRun (cfg : Cfg) (m : DMethod) (n : Nat) (c a rC fC : Bool) : DState → List Inter → Except Err (List Plan × DState)
  | st, [] => .ok ([], st)
  | st, I :: rest =>
    match (if c then makeDense m n st I.context else .ok (st, I.context)) with
    | .error e => .error e
    | .ok (st1, ctx) =>
      match (match a, I.actions with
             | true, some as => (match makeDenseList m n st1 as with | .ok (st2, as') => Except.ok (st2, some as') | .error e => .error e)
             | _, x => .ok (st1, x)) with
      | .error e => .error e
      | .ok (st2, acts) =>
        match (match a, I.action with
               | true, some x => (match makeDense m n st2 x with | .ok (st3, x') => Except.ok (st3, some x') | .error e => .error e)
               | _, x => .ok (st2, x)) with
        | .error e => .error e
        | .ok (st3, act) =>
          let changed := cfg.fixRekey && a && (match I.actions with | some as => as.any isDict | none => false)
          match densifyRun cfg m n c a rC fC st3 rest with
          | .error e => .error e
          | .ok (ps, stEnd) =>
            let p : Plan := { context := ctx, actions := acts, action := act,
                              polR := if changed && rC then .generic else .keep,
                              polF := if changed && fC then .generic else .keep }
            .ok (p :: ps, stEnd)

/-- the state of a freshly constructed `Densify(n_feats=n)` -/
def initDState (n : Nat) : DState :=
  { table := [], fresh := lookupStream n (if n == 0 then 0 else 192 / n + 2) (Coba.C05.normInt 1) }

/-- asking the table for a list of keys, one after the other -/
def primeKeys (m : DMethod) : DState → List String → Except Err DState
  | st, [] => .ok st
  | st, k :: ks => match denseIndex m st k with
    | .ok (st', _) => primeKeys m st' ks
    | .error e => .error e

def keysOfVal : Val → List String
  | .dict kvs => kvs.map (·.1)
  | _ => []

def keysOfVals : List Val → List String
  | [] => []
  | v :: vs => keysOfVal v ++ keysOfVals vs

/-- the keys a `Densify(context=c, action=a)` asks its table for while it filters `s`, in order -/
def keysAsked (c a : Bool) : List Inter → List String
  | [] => []
  | I :: rest =>
    (if c then keysOfVal I.context else [])
    ++ (match a, I.actions with | true, some as => keysOfVals as | _, _ => [])
    ++ (match a, I.action with | true, some x => keysOfVal x | _, _ => [])
    ++ keysAsked c a rest

/-- the method without the history of the object (`prior` only says where the table starts) -/
def normMethod : DMethod → DMethod
  | .lookup _ => .lookup []
  | m => m

def densifyPlans (cfg : Cfg) (m : DMethod) (n : Nat) (c a : Bool) (s : List Inter) : Except Err (List Plan) :=
  let rC := firstCallable (·.rewards) s
  let fC := firstCallable (·.feedbacks) s
  -- keys handed out by earlier calls of the same filter object keep their slots
  let primed : Except Err DState := match m with
    | .lookup prior => primeKeys (.lookup []) (initDState n) prior
    | _ => .ok (initDState n)
  match primed with
  | .error e => .error e
  | .ok st1 => match densifyRun cfg (normMethod m) n c a rC fC st1 s with
    | .ok (ps, _) => .ok ps
    | .error e => .error e

/-! ## Noise -/

inductive NoiseSpec where
  /-- a pure noiser `x ↦ mul·x + add` -/
  | affine (mul add : Rat)
  /-- the noiser draws from a generator: the realised values are given as data, in drawing order -/
  | drawn
  deriving Repr, Inhabited

def noise1 (ns : NoiseSpec) (orc : List Rat) (v : Val) : Except Err (List Rat × Val) :=
  match v with
  | .num x =>
    match ns with
    | .affine m b => .ok (orc, .num (x * m + b))
    | .drawn => match orc with
      | [] => .error .unmodelled
      | y :: rest => .ok (rest, .num y)
  | _ => .ok (orc, v)

def noiseList (ns : NoiseSpec) : List Rat → List Val → Except Err (List Rat × List Val)
  | orc, [] => .ok (orc, [])
  | orc, v :: vs => match noise1 ns orc v with
    | .error e => .error e
    | .ok (orc', v') => match noiseList ns orc' vs with
      | .error e => .error e
      | .ok (orc'', vs') => .ok (orc'', v' :: vs')

def insertSorted (p : String × Val) : List (String × Val) → List (String × Val)
  | [] => [p]
  | q :: r => if p.1 < q.1 then p :: q :: r else q :: insertSorted p r

def sortByKey (kvs : List (String × Val)) : List (String × Val) := kvs.foldl (fun acc p => insertSorted p acc) []

/-- `_noises(value, rng, noiser)` -/
def noises (ns : Option NoiseSpec) (orc : List Rat) (v : Val) : Except Err (List Rat × Val) :=
  match ns with
  | none => .ok (orc, v)
  | some ns =>
    match v with
    | .dict kvs =>
      let sorted := sortByKey kvs
      match noiseList ns orc (sorted.map (·.2)) with
      | .error e => .error e
      | .ok (orc', vs) => .ok (orc', .dict ((sorted.map (·.1)).zip vs))
    | _ =>
      match denseItems v with
      | some items => match noiseList ns orc items with
        | .error e => .error e
        | .ok (orc', vs) => .ok (orc', .list vs)
      | none => noise1 ns orc v

def noisesList (ns : Option NoiseSpec) : List Rat → List Val → Except Err (List Rat × List Val)
  | orc, [] => .ok (orc, [])
  | orc, v :: vs => match noises ns orc v with
    | .error e => .error e
    | .ok (orc', v') => match noisesList ns orc' vs with
      | .error e => .error e
      | .ok (orc'', vs') => .ok (orc'', v' :: vs')

def noisePlans (cfg : Cfg) (nc na : Option NoiseSpec) (oracle : List Rat) (s : List Inter) : Except Err (List Plan) :=
  let rC := firstCallable (·.rewards) s
  let fC := firstCallable (·.feedbacks) s
  let rec go : List Rat → List Inter → Except Err (List Plan)
    | _, [] => .ok []
    | orc, I :: rest =>
      match noises nc orc I.context with
      | .error e => .error e
      | .ok (orc1, ctx) =>
        match (match I.actions with
               | some as => (match noisesList na orc1 as with | .ok (o, as') => Except.ok (o, some as') | .error e => .error e)
               | none => .ok (orc1, none)) with
        | .error e => .error e
        | .ok (orc2, acts) =>
          let act : Option Val := if cfg.fixNoiseLogged then mapMember I.actions acts I.action I.action else I.action
          let polR := match I.rewards with
            | some _ => if rC then Policy.generic else Policy.toList
            | none => Policy.keep
          let polF := if cfg.fixNoiseFeedbacks && fC && I.actions.isSome && I.feedbacks.isSome then Policy.generic else Policy.keep
          match go orc2 rest with
          | .error e => .error e
          | .ok ps => .ok ({ context := ctx, actions := acts, action := act, polR := polR, polF := polF } :: ps)
  go oracle s

/-! ## Harden and Finalize -/

def isLazy : Val → Bool
  | .lazy _ _ => true
  | _ => false

/-- `list(value)` -/
def hardenVal (v : Val) : Except Err Val :=
  match iterItems v with
  | .ok items => .ok (.list items)
  | .error e => .error e

/-- one action of a dense, not materialised action list: as-is every action goes through `list(…)`
(a tuple or a string next to the lazy rows becomes a list), repaired only the lazy ones do -/
def hardenAction (fixMixed : Bool) (v : Val) : Except Err Val :=
  if fixMixed && !isLazy v then .ok v else hardenVal v

def hardenPlans (cfg : Cfg) (s : List Inter) : Except Err (List Plan) :=
  match s with
  | [] => .ok []
  | first :: _ =>
    let hc := isLazy first.context
    let ha := match first.actions with | some (a :: _) => isLazy a | _ => false
    let hx := match first.action with | some a => isLazy a | none => false
    mapM' (fun I =>
      match (if hc then hardenVal I.context else .ok I.context) with
      | .error e => .error e
      | .ok ctx =>
        match (match ha, I.actions with
               | true, some as => (match mapM' (hardenAction cfg.fixHardenMixed) as with | .ok as' => Except.ok (some as') | .error e => .error e)
               | _, x => .ok x) with
        | .error e => .error e
        | .ok acts =>
          match (match hx, I.action with
                 | true, some x => (match hardenAction cfg.fixHardenMixed x with | .ok x' => Except.ok (some x') | .error e => .error e)
                 | _, x => .ok x) with
          | .error e => .error e
          | .ok act => .ok { context := ctx, actions := acts, action := act, polR := .keep, polF := .keep }) s

def isSeqList : Option Rew → Bool
  | some (.seq true _) => true
  | _ => false

def wrapPlans (s : List Inter) : List Plan :=
  match s with
  | [] => []
  | first :: _ =>
    let rl := isSeqList first.rewards
    let fl := isSeqList first.feedbacks
    s.map fun I => { context := I.context, actions := I.actions, action := I.action,
                     polR := if rl then .wrapSeq else .keep, polF := if fl then .wrapSeq else .keep }

/-! ## Cycle (coba/environments/filters.py:575-629) -/

def isStrLike : Val → Bool
  | .str _ => true
  | .cat _ _ => true
  | _ => false

/-- `set(first['actions']) == {one_hot(i,n) for i in range(n)}` (needs hashable actions) -/
def isOnehotSet (as : List Val) : Bool :=
  let n := as.length
  (as.all fun a => (List.range n).any fun i => pyEq a (.tuple (onehotVec i n)))
  && ((List.range n).all fun i => as.any fun a => pyEq a (.tuple (onehotVec i n)))

def cyclePlans (after : Nat) (s : List Inter) : Except Err (List Plan) :=
  match s with
  | [] => .ok []
  | first :: _ =>
    let keepAll := s.map fun I => ({ context := I.context, actions := I.actions, action := I.action, polR := .keep, polF := .keep } : Plan)
    match first.actions with
    | none => .ok keepAll
    | some fas =>
      if !(fas.all hashable) then .error .typeError else
      let n := fas.length
      let cyclable := first.rewards.isSome && 0 < n && (isOnehotSet fas || fas.all isStrLike)
      if !cyclable then .ok keepAll else
      let hasF := first.feedbacks.isSome
      .ok ((List.range s.length).map fun t =>
        let I := s.getD t default
        if t < after then ({ context := I.context, actions := I.actions, action := I.action, polR := .keep, polF := .keep } : Plan)
        else { context := I.context, actions := I.actions, action := I.action, polR := .rotate n, polF := if hasF then .rotate n else .keep })

/-! ## Steps, batching, chains -/

inductive Step where
  | repr (cc ca : Option Mode)
  | flatten
  | sparsify (c a : Bool)
  | densify (n : Nat) (m : DMethod) (c a : Bool)
  | noise (c a : Option NoiseSpec) (oracle : List Rat)
  | harden
  | wrapSeqs
  /-- `Cycle(after)` -/
  | cycle (after : Nat)
  | finalize
  | batch (n : Option Nat)
  | unbatch
  deriving Repr, Inhabited

/-- the plans of a single (non-composite) filter -/
def plansOf (cfg : Cfg) (st : Step) (s : List Inter) : Except Err (List Plan) :=
  match st with
  | .repr cc ca => reprPlans cfg cc ca s
  | .flatten => flattenPlans cfg s
  | .sparsify c a => sparsifyPlans cfg c a s
  | .densify n m c a => densifyPlans cfg m n c a s
  | .noise c a o => noisePlans cfg c a o s
  | .harden => hardenPlans cfg s
  | .wrapSeqs => .ok (wrapPlans s)
  | .cycle after => cyclePlans after s
  | _ => .error .unmodelled

/-- one primitive filter = decide the plans, then apply them -/
def runPrim (cfg : Cfg) (st : Step) (s : List Inter) : Except Err (List Inter) :=
  match plansOf cfg st s with
  | .error e => .error e
  | .ok ps => applyPlans s ps

/-- Finalize = Harden ∘ Repr("onehot","onehot") ∘ wrap list rewards (decided on the *incoming* first interaction) -/
def expandStep : Step → List Step
  | .finalize => [.harden, .repr (some .onehot) (some .onehot), .wrapSeqs]
  | st => [st]

/-- `_batched`: sizes of the batches of a stream of length `len` (`fuel` ≥ `len` bounds the recursion) -/
def chunkSizes (k : Nat) : Nat → Nat → List Nat
  | 0, _ => []
  | _, 0 => []
  | fuel + 1, len => if len ≤ k then [len] else k :: chunkSizes k fuel (len - k)

structure State where
  stream : List Inter
  /-- `some sizes` when the stream is currently batched -/
  sizes : Option (List Nat) := none
  deriving Repr, Inhabited

def runPrims (cfg : Cfg) : List Step → List Inter → Except Err (List Inter)
  | [], s => .ok s
  | st :: rest, s => match runPrim cfg st s with
    | .error e => .error e
    | .ok s' => runPrims cfg rest s'

/-- Finalize decides `rwds_is_list` on the stream it receives, i.e. before Harden/Repr; those two
never turn a list into something else, so deciding it at the wrap step is the same. -/
def runStep (cfg : Cfg) (st : Step) (S : State) : Except Err State :=
  match st with
  | .batch n =>
    match n with
    | none => .ok S
    | some 0 => .ok S
    | some k =>
      match S.sizes with
      | some _ => .error .unmodelled
      | none => if S.stream.isEmpty then .ok S else .ok { S with sizes := some (chunkSizes k S.stream.length S.stream.length) }
  | .unbatch => .ok { S with sizes := none }
  | _ =>
    match runPrims cfg (expandStep st) S.stream with
    | .error e => .error e
    | .ok s' =>
      -- BatchSafe: Unbatch, filter, Batch(len(first batch))
      let sizes' := match S.sizes with
        | some (k :: _) => some (chunkSizes k s'.length s'.length)
        | other => other
      .ok { stream := s', sizes := sizes' }

def runChain (cfg : Cfg) : List Step → State → Except Err State
  | [], S => .ok S
  | st :: rest, S => match runStep cfg st S with
    | .error e => .error e
    | .ok S' => runChain cfg rest S'

/-! ## Filter objects: what survives a `filter()` call

Every representation filter of coba builds its working state inside `filter()`; the one exception
is `Densify`, whose look-up table lives in the object.  `runPrimObj` is a filter *object* applied
to one sequence: it takes and returns that table. -/
def runPrimObj (cfg : Cfg) (st : Step) (T : DState) (s : List Inter) : Except Err (List Inter × DState) :=
  match st with
  | .densify n (.lookup _) c a =>
    match densifyRun cfg (.lookup []) n c a (firstCallable (·.rewards) s) (firstCallable (·.feedbacks) s) T s with
    | .error e => .error e
    | .ok (ps, T') => match applyPlans s ps with
      | .ok s' => .ok (s', T')
      | .error e => .error e
  | _ => match runPrim cfg st s with
    | .ok s' => .ok (s', T)
    | .error e => .error e

/-- the same filter object applied to sequence `A`, then to sequence `B`: what `B` gives -/
def runObjTwice (cfg : Cfg) (st : Step) (T : DState) (A B : List Inter) : Except Err (List Inter) :=
  match runPrimObj cfg st T A with
  | .error e => .error e
  | .ok (_, T1) => match runPrimObj cfg st T1 B with
    | .ok (b, _) => .ok b
    | .error e => .error e

/-! ## Run-time form of the theorems' hypotheses (reported to the harness as `hyp`) -/

/-- hypothesis on one target of one plan: what the re-keying needs to be sound -/
def targetHypB (p : Policy) (r : Option Rew) (oldActs newActs : List Val) : Bool :=
  match r with
  | none => true
  | some r =>
    match p with
    | .keep => obsEq (obsOf r oldActs) (obsOf r newActs)
    | .toList => true
    | .rotate _ => false          -- Cycle does not preserve alignment (see `cycle_spec`)
    | .wrapSeq => distinctB newActs
    | .generic => distinctB newActs
    | .reprStyle fixD =>
      match r with
      | .binary am _ => distinctB newActs && distinctB oldActs && oldActs.any (fun a => Val.same a am)
      | .discrete _ rs _ _ => distinctB newActs && (fixD || obsEq (obsOf r oldActs) (rs.map .ok))
      | _ => distinctB newActs

/-- the logged action is a member of the old actions, and its new form is, structurally, the
same member of the new actions (the filter encoded it the way it encoded that member) -/
def loggedHypB (oldActs newActs : List Val) (a a' : Option Val) : Bool :=
  match a, a' with
  | some a, some a' =>
    match indexOf oldActs a with
    | some k => distinctB newActs && (match newActs[k]? with | some b => Val.same b a' | none => false)
    | none => true
  | none, none => true
  | _, _ => false

def planHypB (I : Inter) (p : Plan) : Bool :=
  match I.actions, p.actions with
  | some o, some n =>
    o.length == n.length && targetHypB p.polR I.rewards o n && targetHypB p.polF I.feedbacks o n
    && loggedHypB o n I.action p.action
  | none, none => p.polR == .keep && p.polF == .keep
  | _, _ => false

def plansHypB : List Inter → List Plan → Bool
  | [], [] => true
  | i :: is, p :: ps => planHypB i p && plansHypB is ps
  | _, _ => false

def primsHypB (cfg : Cfg) : List Step → List Inter → Bool
  | [], _ => true
  | st :: rest, s =>
    match plansOf cfg st s with
    | .error _ => true
    | .ok ps => plansHypB s ps && (match applyPlans s ps with | .ok s' => primsHypB cfg rest s' | .error _ => true)

def chainHypB (cfg : Cfg) : List Step → State → Bool
  | [], _ => true
  | st :: rest, S =>
    (match st with
     | .batch _ => true
     | .unbatch => true
     | _ => primsHypB cfg (expandStep st) S.stream)
    && (match runStep cfg st S with | .ok S' => chainHypB cfg rest S' | .error _ => true)


/-! ## Prop-level vocabulary of the theorems -/

/-- pairwise distinct under Python `==` (an action *set*), every element equal to itself -/
def Distinct (as : List Val) : Prop :=
  ∀ (i j : Nat) (a b : Val), as[i]? = some a → as[j]? = some b → pyEq a b = (i == j)

/-- the action list Sparsify produces -/
def sparsifyActs (a : Bool) (as : List Val) : List Val := if a then as.map (makeSparse "action") else as

/-- does the chain keep the stream aligned (a chain that raises has nothing to misalign) -/
def keepsAligned (cfg : Cfg) (chain : List Step) (s : List Inter) : Bool :=
  match runChain cfg chain { stream := s } with
  | .ok S' => alignedStreamB s S'.stream
  | .error _ => true

/-! ### shape hypotheses of the injectivity theorems (decidable, evaluated by the driver) -/

/-- both rows have, at position `n`, a categorical over the same level list -/
def sameCatAt (xs ys : List Val) (n : Nat) : Bool :=
  match xs[n]?, ys[n]? with
  | some (.cat _ l1), some (.cat _ l2) => l1 == l2
  | _, _ => false

def descending : List Nat → Bool
  | [] => true
  | [_] => true
  | a :: b :: r => decide (b < a) && descending (b :: r)

/-- two dense rows of one shape w.r.t. `flags`: where a flag is set both hold a tuple (or both a
list) of the same length -/
def sameNestShape : List Bool → List Val → List Val → Bool
  | [], _, _ => true
  | _, [], [] => true
  | f :: fs, x :: xs, y :: ys =>
    (if f then
      match x, y with
      | .tuple a, .tuple b => a.length == b.length
      | .list a, .list b => a.length == b.length
      | _, _ => false
     else true) && sameNestShape fs xs ys
  | _, _, _ => false

def ckNats : List CK → Option (List Nat)
  | [] => some []
  | .i n :: r => (ckNats r).map (n :: ·)
  | _ :: _ => none

/-- `r` has the shape of `first` as far as `Repr` is concerned: the same container kind and length,
and a categorical over the same levels wherever `first` has a (top-level) categorical -/
def sameDenseCatShape (ns : List Nat) (first r : Val) : Bool :=
  match first, r with
  | .list xs, .list ys => xs.length == ys.length && ns.all (sameCatAt xs ys)
  | .tuple xs, .tuple ys => xs.length == ys.length && ns.all (sameCatAt xs ys)
  | _, _ => false

/-- shape hypothesis of `repr_dense_rows_distinct`: dense rows (all tuples or all lists of one length)
whose categorical cells are at the top level, at the same positions, over the same level lists -/
def denseCatShapeB (rows : List Val) : Bool :=
  match rows with
  | [] => true
  | first :: _ =>
    match ckNats (catkey first) with
    | some (n :: ns) => descending (n :: ns) && rows.all (sameDenseCatShape (n :: ns) first)
    | _ => false

/-- shape hypothesis of `flatten_dense_rows_distinct`: dense rows of one container kind and one
length whose nested cells are, position by position, containers of one kind and one length -/
def flattenShapeB (rows : List Val) : Bool :=
  match rows with
  | [] => true
  | first :: _ =>
    match first with
    | .list fs => rows.all fun r => match r with
        | .list xs => xs.length == fs.length && sameNestShape (fs.map isFlattable) fs xs
        | _ => false
    | .tuple fs => rows.all fun r => match r with
        | .tuple xs => xs.length == fs.length && sameNestShape (fs.map isFlattable) fs xs
        | _ => false
    | _ => false

/-- why the shape is needed: `((1,),(2,3))` and `((1,2),(3,))` are different actions with the same flattening -/
def wFlattenShape : List Val :=
  [.tuple [.tuple [.num 1], .tuple [.num 2, .num 3]], .tuple [.tuple [.num 1, .num 2], .tuple [.num 3]]]

mutual
/-- the dense fragment of the universe: no dict and no SparseDense anywhere inside -/
def denseOnly : Val → Bool
  | .list xs => denseOnlyL xs
  | .tuple xs => denseOnlyL xs
  | .dict _ => false
  | .lazy _ _ => false
  | _ => true
def denseOnlyL : List Val → Bool
  | [] => true
  | x :: xs => denseOnly x && denseOnlyL xs
end

def uniqKeys : List String → Bool
  | [] => true
  | k :: ks => !ks.contains k && uniqKeys ks

mutual
/-- values as Python can build them from lists, tuples and dicts: dict keys are unique (no SparseDense inside) -/
def wfNoLazy : Val → Bool
  | .list xs => wfNoLazyL xs
  | .tuple xs => wfNoLazyL xs
  | .dict kvs => uniqKeys (kvs.map (·.1)) && wfNoLazyD kvs
  | .lazy _ _ => false
  | _ => true
def wfNoLazyL : List Val → Bool
  | [] => true
  | x :: xs => wfNoLazy x && wfNoLazyL xs
def wfNoLazyD : List (String × Val) → Bool
  | [] => true
  | (_, v) :: r => wfNoLazy v && wfNoLazyD r
end

/-- pairwise different under `==` (off the diagonal only; reflexivity is `pyEq_refl`) -/
def pairwiseNeB (as : List Val) : Bool :=
  (List.range as.length).all fun i => (List.range as.length).all fun j =>
    match as[i]?, as[j]? with
    | some a, some b => i == j || !pyEq a b
    | _, _ => true

/-- two sparse actions whose keys crc32 sends to one slot (given as the table), Densify(hashing) -/
def wHashCollision : List Inter :=
  [{ actions := some [.dict [("a", .num 1)], .dict [("b", .num 1)]],
     rewards := some (.fn [(.dict [("a", .num 1)], 5), (.dict [("b", .num 1)], 6)] (-999)) }]

/-! ## Batched interactions (`Batch.Callable`, `Batch.List`)

A batch of interactions is one dict whose values are lists; a batched reward function is called
with one action per member and answers with one reward per member: `outs = map(lambda f,a: f(a), self, args)`. -/

/-- `Batch.Callable([f_0,…])([a_0,…]) = [f_0(a_0),…]` (zip truncates) -/
def batchCall : List Rew → List Val → List (Except Err Rat)
  | f :: fs, a :: as => callRew f a :: batchCall fs as
  | _, _ => []

/-- the i-th action of every member of a batch -/
def column (i : Nat) (actss : List (List Val)) : Option (List Val) :=
  match actss with
  | [] => some []
  | as :: rest => match as[i]?, column i rest with
    | some a, some col => some (a :: col)
    | _, _ => none

/-- what the batched reward function answers when it is asked for the i-th action of every member -/
def batchObs (get : Inter → Option Rew) (batch : List Inter) (i : Nat) : Option (List (Except Err Rat)) :=
  match mapM' (fun I => match get I, I.actions with
                        | some r, some as => (if r.isCallable then Except.ok (r, as) else .error .typeError)
                        | _, _ => .error .keyError) batch with
  | .error _ => none
  | .ok pairs => match column i (pairs.map (·.2)) with
    | some col => some (batchCall (pairs.map (·.1)) col)
    | none => none

/-- the stream cut into its batches -/
def cutBatches {α} : List Nat → List α → List (List α)
  | [], _ => []
  | n :: ns, xs => xs.take n :: cutBatches ns (xs.drop n)

/-! ### witnesses of the recorded defects (replayed on the real code by the harness) -/
def catA : Val := .cat "a" ["a", "b"]
def catB : Val := .cat "b" ["a", "b"]
def wRekey : List Inter := [{ actions := some [.num 1, .num 2], rewards := some (.binary (.num 2) 1) }]
def wReprLogged : List Inter :=
  [{ actions := some [catA, catB], action := some catB, reward := some (1/2), probability := some (1/4) }]
def wReprDiscrete : List Inter := [{ actions := some [catA, catB], rewards := some (.discrete [catB, catA] [1, 2] 0 false) }]
def wNoiseLogged : List Inter :=
  [{ actions := some [.num 1, .num 2], action := some (.num 2), reward := some (1/2), probability := some (1/4) }]
def wNoiseFeedbacks : List Inter :=
  [{ actions := some [.num 1, .num 2], rewards := some (.seq true [1, 2]),
     feedbacks := some (.fn [(.num 1, 5), (.num 2, 6)] (-999)) }]
/-- a mixed action set as Densify(action=True) leaves it: a SparseDense row next to a plain tuple -/
def wHardenMixed : List Inter :=
  [{ actions := some [.lazy [(0, .num 1)] 2, .tuple [.num 1, .num 2]], rewards := some (.binary (.tuple [.num 1, .num 2]) 1) }]
def wFlattenLogged : List Inter :=
  [{ actions := some [.tuple [.num 1, .tuple [.num 2]], .tuple [.num 3, .tuple [.num 4]]],
     action := some (.tuple [.num 3, .tuple [.num 4]]), reward := some (1/2), probability := some (1/4) }]

/-! ## Phase 4: explicit decidable preconditions on the *input* (nothing about the filter's output) -/

def isNum : Val → Bool
  | .num _ => true
  | _ => false

/-- a noiser that cannot merge two numbers: no action noise at all, or `x ↦ mul·x + add` with `mul ≠ 0` -/
def injNoiser : Option NoiseSpec → Bool
  | none => true
  | some (.affine m _) => m != 0
  | some .drawn => false

/-- preconditions of `noise_scalar_aligned`, all about the stream handed to `Noise`: the reward / feedback functions answer
for their own actions, functional feedbacks are functional from the first interaction on, every action is a number and the
action lists are sets, an interaction without actions carries no rewards -/
def noiseScalarHypB (s : List Inter) : Bool :=
  alignedStreamB s s
  && s.all fun I =>
      (match I.feedbacks with | some r => !r.isCallable || firstCallable (·.feedbacks) s | none => true)
      && (match I.actions with | some as => as.all isNum && distinctB as | none => I.rewards.isNone)

/-- Cycle really moves rewards: which reward the j-th action earns afterwards (`cycle_shift`) -/
def cycleSource (n j : Nat) : Nat := (j + n - 1) % n

/-- Python's `==` is not transitive once a SparseDense row is involved: `[1] == SparseDense({0:1},1) == (1,)` but `[1] != (1,)` -/
def wEqNotTrans : Val × Val × Val := (.list [.num 1], .lazy [(0, .num 1)] 1, .tuple [.num 1])

/-- the constants of the anchored source that the model hard-wires (compared with `Generated/C10Consts.lean`,
which the harness regenerates from the source under test on every run) -/
def modeName : Mode → String
  | .onehot => "onehot"
  | .onehotTuple => "onehot_tuple"
  | .string => "string"

def optModeName : Option Mode → String
  | some m => modeName m
  | none => "None"

/-- `Finalize` = `Harden()`, `Repr(<ctx mode>, <action mode>)`: the two mode names the model uses -/
def finalizeReprModes : List String :=
  match expandStep .finalize with
  | [.harden, .repr cc ca, .wrapSeqs] => [optModeName cc, optModeName ca]
  | _ => []

/-- the default headers `Sparsify` passes to `_make_sparse` for context, actions, logged action -/
def sparsifyHeaders : List String := ["context", "action", "action"]

/-- the seed of the generator behind Densify's look-up slots -/
def densifySeed : Nat := 1

/-- Cycle's rotation `l[a % n:] + l[:a % n]` with `a = -1`: the model's `rotList` drops `n - cycleShift` -/
def cycleShift : Nat := 1

/-- `if i >= self._after` in Cycle: does interaction number `t` get rotated (the model's `cyclePlans` tests `t < after` for "keep") -/
def cycleRotatesAt (after t : Nat) : Bool := !(decide (t < after))

/-- the witnesses of the Phase-4 `_counterexample`s -/
def wCycle : List Inter := [{ actions := some [.str "a", .str "b", .str "c"], rewards := some (.seq true [1, 2, 3]) }]


/-! ## Phase 5: well-formed SparseDense rows (what `Densify` builds: one entry per slot, slots below the length, lazy-free values) -/

def natKeysUniq : List Nat → Bool
  | [] => true
  | k :: ks => !ks.contains k && natKeysUniq ks

def lazyWf (kvs : List (Nat × Val)) (n : Nat) : Bool :=
  natKeysUniq (kvs.map (·.1)) && kvs.all (fun p => decide (p.1 < n) && wfNoLazy p.2)

def wfRow : Val → Bool
  | .lazy kvs n => lazyWf kvs n
  | v => wfNoLazy v



/-! ### Densify: slot functions, sparse rows, injective slots (goal 1) -/

/-- the table a Densify method reads its slots from -/
def tableOf (m : DMethod) (st : DState) : List (String × Nat) :=
  match m with
  | .hashing t => t
  | .lookup _ => st.table

/-- `_make_dense`'s entries for a slot function -/
def entsAcc (slot : String → Nat) : List (String × Val) → List (Nat × Val) → List (Nat × Val)
  | [], acc => acc
  | (k, v) :: r, acc => entsAcc slot r (natSet (slot k) v acc)

def slotFn (T : List (String × Nat)) (k : String) : Nat := (assocGet k T).getD 0

def noZeroD (d : List (String × Val)) : Bool := d.all (fun p => !isZero p.2)

/-- a sparse row as coba's readers produce it: unique keys, lazy-free values, no stored zero -/
def sparseRowWf (d : List (String × Val)) : Bool := uniqKeys (d.map (·.1)) && wfNoLazyD d && noZeroD d

/-- every key has a slot below `n` and different keys have different slots -/
def slotsInjB (T : List (String × Nat)) (keys : List String) (n : Nat) : Bool :=
  keys.all (fun k => match assocGet k T with | some i => decide (i < n) | none => false) &&
  keys.all (fun k => keys.all (fun k' => k == k' || slotFn T k != slotFn T k'))

/-- `_make_dense(value)` for a slot function given as a table -/
def denseOf (T : List (String × Nat)) (n : Nat) : Val → Val
  | .dict d => .lazy (entsAcc (slotFn T) d []) n
  | v => v

/-- every action is a sparse row (unique keys, lazy-free values, no stored zero) -/
def sparseRowsB (as : List Val) : Bool := as.all fun a => match a with | .dict d => sparseRowWf d | _ => false



/-- the table a `Densify` object holds after it has filtered `s` (hashing: the crc32 table, given) -/
def densifyTable (m : DMethod) (n : Nat) (c a : Bool) (s : List Inter) : List (String × Nat) :=
  match m with
  | .hashing t => t
  | .lookup prior =>
    match primeKeys (.lookup []) (initDState n) (prior ++ keysAsked c a s) with
    | .ok st => st.table
    | .error _ => []

/-- the per-interaction part of the preconditions of `densify_sparse_aligned` -/
def densifyInterHypB (T : List (String × Nat)) (n : Nat) (rC fC : Bool) (I : Inter) : Bool :=
  (match I.rewards with | some r => !r.isCallable || rC | none => true)
  && (match I.feedbacks with | some r => !r.isCallable || fC | none => true)
  && (match I.actions with
      | some as => sparseRowsB as && distinctB as && slotsInjB T (keysOfVals as) n
          && (match I.action with
              | some x => (match indexOf as x with
                           | some k => (match as[k]? with | some b => Val.same b x | none => false)
                           | none => true)
              | none => true)
      | none => true)

/-- explicit, decidable preconditions of Densify(action=True) on sparse actions — all about the *input* stream and the slot table -/
def densifySparseHypB (T : List (String × Nat)) (n : Nat) (s : List Inter) : Bool :=
  alignedStreamB s s && s.all (densifyInterHypB T n (firstCallable (·.rewards) s) (firstCallable (·.feedbacks) s))


/-- witness: a stored zero is the same dense row as an absent key (`{'a':0}` and `{}`), so two different sparse actions merge -/
def wStoredZero : List Inter :=
  [{ actions := some [.dict [("a", .num 0)], .dict []], rewards := some (.binary (.dict []) 1) }]


/-! ### Repr / EncodeCatRows: the mode names and the dispatch on them, as named definitions (compared with `Generated/C10ReprModes.lean`) -/

/-- every mode `Repr(cat_context, cat_actions)` / `EncodeCatRows(tipe)` accepts besides `None` -/
def allModes : List Mode := [.onehot, .onehotTuple, .string]

/-- the parser of mode names (used by the driver; inverse of `modeName`) -/
def modeOfName (s : String) : Option Mode :=
  if s == "onehot" then some .onehot else if s == "onehot_tuple" then some .onehotTuple else if s == "string" then some .string else none

/-- `EncodeCatRows._encode_values`: which conversion a scalar categorical gets under each mode -/
def valuesBranch : Mode → String
  | .string => "str"
  | _ => "as_onehot"

/-- `EncodeCatRows._encode_collection.catset`: `str(...)`, the flat one-hot, or the one-hot tuple in place -/
def collBranch : Mode → String
  | .string => "str"
  | .onehot => "flat"
  | .onehotTuple => "as_onehot"

/-! ## Phase 6: constructor calls with arguments left out (option handling of Sparsify / Densify / Repr / Cycle and of the Environments shortcuts) -/

/-- who builds the filter object: the class itself (`Sparsify(...)`) or the `Environments` shortcut (`envs.sparse(...)`) -/
inductive Ctor where
  | filter | env
  deriving Repr, DecidableEq, Inhabited

/-- `Sparsify.__init__(context=True, action=False)` and `Environments.sparse(context=True, action=False)` -/
def sparsifyDefaults : Ctor → Bool × Bool
  | .filter => (true, false)
  | .env => (true, false)

/-- `Densify.__init__(…, context=True, action=False)` and `Environments.dense(n_feats, method, context=True, action=False)` -/
def densifyFlagDefaults : Ctor → Bool × Bool
  | .filter => (true, false)
  | .env => (true, false)

/-- `Densify.__init__(n_feats=400, method='lookup', …)` (the shortcut has no default for these two) -/
def densifyDefaultN : Nat := 400
def densifyDefaultMethod : String := "lookup"

/-- the method names `Densify` documents (`Literal['lookup','hashing']`) -/
def densifyMethodNames : List String := ["lookup", "hashing"]

/-- `_make_dense`: `if self._method == 'lookup': … else: <crc32>` — every name but `'lookup'` hashes -/
def methodBranch (m : String) : String := if m == "lookup" then "lookup" else "hashing"

/-- the parser of method names (used by the driver) -/
def methodOfName (m : String) (prior : List String) (tbl : List (String × Nat)) : DMethod :=
  if methodBranch m == "lookup" then .lookup prior else .hashing tbl

/-- `Repr.__init__(categorical_context=None, categorical_actions=None)`; `Environments.repr(cat_context="onehot", cat_actions="onehot")` -/
def reprDefaults : Ctor → Option Mode × Option Mode
  | .filter => (none, none)
  | .env => (some .onehot, some .onehot)

/-- `Cycle.__init__(after=0)` -/
def cycleDefaultAfter : Nat := 0

/-- `Sparsify(...)` / `envs.sparse(...)` with any of the arguments left out (`none`) -/
def mkSparsify (k : Ctor) (c a : Option Bool) : Step :=
  .sparsify (c.getD (sparsifyDefaults k).1) (a.getD (sparsifyDefaults k).2)

/-- `Densify(...)` / `envs.dense(...)` with any of the arguments left out -/
def mkDensify (k : Ctor) (n : Option Nat) (m : Option String) (c a : Option Bool) (prior : List String) (tbl : List (String × Nat)) : Step :=
  .densify (n.getD densifyDefaultN) (methodOfName (m.getD densifyDefaultMethod) prior tbl)
    (c.getD (densifyFlagDefaults k).1) (a.getD (densifyFlagDefaults k).2)

/-- `Repr(...)` / `envs.repr(...)` with any of the two modes left out (`some none` = an explicit `None`) -/
def mkRepr (k : Ctor) (cc ca : Option (Option Mode)) : Step :=
  .repr (cc.getD (reprDefaults k).1) (ca.getD (reprDefaults k).2)

/-- `Cycle(...)` with `after` left out -/
def mkCycle (after : Option Nat) : Step := .cycle (after.getD cycleDefaultAfter)

/-- everything of an interaction but its context -/
def nonContext (I : Inter) : Option (List Val) × Option Val × Option Rew × Option Rew × Option Rat × Option Rat :=
  (I.actions, I.action, I.rewards, I.feedbacks, I.reward, I.probability)

/-! ## Phase 6: histories of reads of one filter object -/

/-- a history of reads of ONE filter object (each entry is what one `filter()` call was given before it ended: a complete sequence, or the
items an aborted / abandoned read got to): the state the object is left in -/
def runObjHistory (cfg : Cfg) (st : Step) : DState → List (List Inter) → Except Err DState
  | T, [] => .ok T
  | T, A :: rest => match runPrimObj cfg st T A with
    | .error e => .error e
    | .ok (_, T1) => runObjHistory cfg st T1 rest

/-- the keys a Densify object was asked for over a whole history, in order -/
def historyKeys (c a : Bool) : List (List Inter) → List String
  | [] => []
  | A :: rest => keysAsked c a A ++ historyKeys c a rest

/-- the object after a history of reads, applied to `B`: what `B` gives -/
def runObjAfter (cfg : Cfg) (st : Step) (T : DState) (hist : List (List Inter)) (B : List Inter) : Except Err (List Inter) :=
  match runObjHistory cfg st T hist with
  | .error e => .error e
  | .ok T' => match runPrimObj cfg st T' B with
    | .ok (b, _) => .ok b
    | .error e => .error e

end Coba.C10
