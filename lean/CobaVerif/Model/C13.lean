/-
C13 — Lazy row views are indistinguishable from the eager table they describe.

Executable model of coba/pipes/rows.py (LazyDense/LazySparse, Head*, Encode*, KeepDense/DropSparse/
DropOne, Label*, the *Rows filters that build them, EncodeCatRows), of Dense_/Sparse_ equality/copy
(coba/primitives.py) and of the way ArffReader builds its lazy rows (coba/pipes/readers.py), plus the
eager specification on plain lists / dicts.  Import-free (core Lean only): compiled into `drv_c13`.

The model mirrors the code *with the proposed fixes fixes/C13-*.diff applied* (see notes/C13.md);
what is deliberately kept as in the code: feats/label/tipe of a row are passed through later
wrappers unchanged (`__getattr__`), KeepDense still answers a dropped column's name.

Conventions.  A Python exception is `Except Err`; only its presence is compared with the code.
A dict is an association list in insertion order (`dget` = lookup, `dset` = assignment).
Set-valued results (`keys()`) are lists that are compared as sets.
-/

namespace Coba.C13

/-! ## values, keys, errors -/

inductive Val
  | none
  | int (i : Int)
  | str (s : String)
  | cat (s : String) (lv : List String)     -- coba.primitives.Categorical (a str carrying its levels)
  | tup (l : List Int)                       -- a one-hot tuple
  | flt (i : Int)                            -- an integer-valued float (`float('7')`): equal to the int, printed `7.0`
  deriving DecidableEq, Repr, Inhabited

/-- dictionary key / row key: an int position or a str name -/
inductive Key
  | pos (n : Nat)
  | name (s : String)
  deriving DecidableEq, Repr, Inhabited

inductive Err
  | indexError | keyError | typeError | valueError | attrError | cobaError
  deriving DecidableEq, Repr, Inhabited

abbrev Res := Except Err

/-- `l[i]` for a non-negative int -/
def idx {α} (l : List α) (i : Nat) : Res α :=
  match l[i]? with
  | some x => .ok x
  | none => .error .indexError

def dget {κ ν} [DecidableEq κ] : List (κ × ν) → κ → Option ν
  | [], _ => none
  | (a, b) :: t, k => if a = k then some b else dget t k

/-- `d[k] = v` -/
def dset {κ ν} [DecidableEq κ] : List (κ × ν) → κ → ν → List (κ × ν)
  | [], k, v => [(k, v)]
  | (a, b) :: t, k, v => if a = k then (a, v) :: t else (a, b) :: dset t k v

/-- `del d[k]` / `d.pop(k)` (the entry is known to exist where this is used) -/
def ddel {κ ν} [DecidableEq κ] (d : List (κ × ν)) (k : κ) : List (κ × ν) := d.filter (fun p => p.1 ≠ k)

/-- `l.index(a)`: position of the first occurrence -/
def posOf {α} [DecidableEq α] : List α → α → Option Nat
  | [], _ => none
  | x :: xs, a => if x = a then some 0 else (posOf xs a).map (· + 1)

abbrev Hdr := List (String × Nat)
abbrev Dict := List (Key × Val)

/-- Python `==` on cell values (`Categorical` is a `str`) -/
def pyEq : Val → Val → Bool
  | .none, .none => true
  | .int a, .int b => a == b
  | .str a, .str b => a == b
  | .str a, .cat b _ => a == b
  | .cat a _, .str b => a == b
  | .cat a _, .cat b _ => a == b
  | .tup a, .tup b => a == b
  | .flt a, .flt b => a == b
  | .flt a, .int b => a == b
  | .int a, .flt b => a == b
  | _, _ => false

/-! ## encoders -/

inductive Enc
  | ident | toInt | toStr | inc | dbl     -- lambda x:x, int, str, lambda x:x+1, lambda x:x*2
  | anum | astr | acat (lv : List String) -- ArffAttrReader encoders: float, string, nominal
  deriving DecidableEq, Repr, Inhabited

def digitVal (c : Char) : Option Nat :=
  if '0' ≤ c ∧ c ≤ '9' then some (c.toNat - 48) else none

def parseNatAux : List Char → Nat → Option Nat
  | [], acc => some acc
  | c :: cs, acc =>
    match digitVal c with
    | some d => parseNatAux cs (acc * 10 + d)
    | none => none

/-- Python `int(s)` / `float(s)` on the token alphabet of the harness: `-?[0-9]+` -/
def parseInt (s : String) : Option Int :=
  match s.toList with
  | [] => none
  | '-' :: cs => if cs.isEmpty then none else (parseNatAux cs 0).map (fun n => -(n : Int))
  | cs => (parseNatAux cs 0).map (fun n => (n : Int))

def strOf : Val → Option String
  | .str s => some s
  | .cat s _ => some s
  | _ => none

def Enc.apply : Enc → Val → Res Val
  | .ident, v => .ok v
  | .toInt, .int i => .ok (.int i)
  | .toInt, .str s => match parseInt s with | some i => .ok (.int i) | none => .error .valueError
  | .toInt, .cat s _ => match parseInt s with | some i => .ok (.int i) | none => .error .valueError
  | .toInt, .flt i => .ok (.int i)
  | .toInt, _ => .error .typeError
  | .toStr, .int i => .ok (.str (toString i))
  | .toStr, .str s => .ok (.str s)
  | .toStr, .cat s _ => .ok (.str s)
  | .toStr, .none => .ok (.str "None")
  | .toStr, .tup _ => .error .typeError          -- repr of a tuple: not modelled, never generated
  | .toStr, .flt i => .ok (.str (toString i ++ ".0"))
  | .inc, .int i => .ok (.int (i + 1))
  | .inc, .flt i => .ok (.flt (i + 1))
  | .inc, _ => .error .typeError
  | .dbl, .int i => .ok (.int (2 * i))
  | .dbl, .str s => .ok (.str (s ++ s))
  | .dbl, .cat s _ => .ok (.str (s ++ s))
  | .dbl, .tup l => .ok (.tup (l ++ l))
  | .dbl, .flt i => .ok (.flt (2 * i))
  | .dbl, .none => .error .typeError
  | .anum, .int i => .ok (.flt i)
  | .anum, .flt i => .ok (.flt i)
  | .anum, .str s => match parseInt s with | some i => .ok (.flt i) | none => .error .valueError
  | .anum, .cat s _ => match parseInt s with | some i => .ok (.flt i) | none => .error .valueError
  | .anum, _ => .error .typeError
  | .astr, v => if pyEq v (.str "?") then .ok .none else .ok v
  | .acat lv, v =>
    match strOf v with
    | some s => if s ∈ lv then .ok (.cat s lv) else .error .cobaError
    | none => .error .cobaError

/-- `val in ['?','']` -/
def missingTok (v : Val) : Bool := pyEq v (.str "?") || pyEq v (.str "")

/-- LazyDense / LazySparse: `try: enc(val) except: if val in ['?','']: return None; raise` -/
def lazyApply (e : Enc) (v : Val) : Res Val :=
  match e.apply v with
  | .ok x => .ok x
  | .error er => if missingTok v then .ok .none else .error er

/-- `v('0') != 0` without raising: the column's sparse zero is not 0 (EncodeRows, ArffReader) -/
def zeroNonzero (e : Enc) : Bool :=
  match e.apply (.str "0") with
  | .ok r => !(pyEq r (.int 0))
  | .error _ => false

/-- run the per-cell results of an iteration: the first failing cell raises -/
def sequence {α} : List (Res α) → Res (List α)
  | [] => .ok []
  | .error e :: _ => .error e
  | .ok x :: t => match sequence t with | .ok xs => .ok (x :: xs) | .error e => .error e

/-- `itertools.compress` -/
def compress {α} : List α → List Bool → List α
  | x :: xs, b :: bs => if b then x :: compress xs bs else compress xs bs
  | _, _ => []

/-! ## the load-once cell of LazyDense / LazySparse -/

/-- `_row`: still the loader (which will return `src`) or already the loaded value -/
inductive Cell (α : Type)
  | pending (src : α)
  | loaded (v : α)
  deriving DecidableEq, Repr

/-- `_load_or_get`: returns the row and the new content of `_row` -/
def Cell.loadOrGet {α} : Cell α → α × Cell α
  | .pending src => (src, .loaded src)
  | .loaded v => (v, .loaded v)

def Cell.get {α} (c : Cell α) : α := c.loadOrGet.1
def Cell.touch {α} (c : Cell α) : Cell α := c.loadOrGet.2

/-! ## dense rows -/

inductive DRow
  | plain (vals : List Val)
  | lazy (cell : Cell (List Val)) (enc : Option (List Enc)) (hdr : Option Hdr) (miss : Bool)
  | head (r : DRow) (hdr : Hdr)
  | encode (r : DRow) (encs : List Enc)
  /-- KeepDense: `_map` is split into its int-keyed part `idxs` (external → internal position) and
  its str-keyed part `names`; `_sel`, `_len`, `headers` -/
  | keep (r : DRow) (idxs : List Nat) (names : Hdr) (sel : List Bool) (len : Nat) (hdr : Option Hdr)
  | label (r : DRow) (ind : Nat) (tipe : Option String)
  | dropOne (r : DRow) (ind : Nat)
  deriving Repr

namespace DRow

/-- header map of DropOne (fixes/C13-feats-header-map.diff) -/
def shiftHdr (ind : Nat) (h : Hdr) : Hdr :=
  h.filterMap (fun p => if p.2 = ind then none else some (p.1, if p.2 < ind then p.2 else p.2 - 1))

/-- attribute `headers` (own slot, else `__getattr__` forwards to `_row`) -/
def headers : DRow → Res Hdr
  | plain _ => .error .attrError
  | lazy _ _ (some h) _ => .ok h
  | lazy _ _ none _ => .error .attrError
  | head _ h => .ok h
  | encode r _ => headers r
  | keep _ _ _ _ _ (some h) => .ok h
  | keep r _ _ _ _ none => headers r
  | label r _ _ => headers r
  | dropOne r ind => match headers r with | .ok h => .ok (shiftHdr ind h) | .error e => .error e

/-- attribute `missing` -/
def missing : DRow → Res Bool
  | plain _ => .error .attrError
  | lazy _ _ _ m => .ok m
  | head r _ => missing r
  | encode r _ => missing r
  | keep r _ _ _ _ _ => missing r
  | label r _ _ => missing r
  | dropOne r _ => missing r

def len : DRow → Nat
  | plain v => v.length
  | lazy c _ _ _ => c.get.length
  | head r _ => len r
  | encode _ es => es.length
  | keep _ _ _ _ n _ => n
  | label r _ _ => len r
  | dropOne r _ => len r - 1

/-- `row[i]` for an int `i ≥ 0` -/
def getPos : DRow → Nat → Res Val
  | plain v, i => idx v i
  | lazy c enc _ _, i =>
    match idx c.get i with
    | .error e => .error e
    | .ok x =>
      match enc with
      | none => .ok x
      | some [] => .ok x
      | some es =>
        match es[i]? with
        | some e => lazyApply e x
        | none => if missingTok x then .ok .none else .error .indexError
  | head r _, i => getPos r i
  | encode r es, i =>
    match idx es i with
    | .error e => .error e
    | .ok e => match getPos r i with | .ok x => e.apply x | .error er => .error er
  | keep r idxs _ _ _ _, i =>
    match idxs[i]? with
    | some j => getPos r j
    | none => .error .indexError           -- `self._row[10000000]`
  | label r _ _, i => getPos r i
  | dropOne r ind, i => getPos r (if i ≥ ind then i + 1 else i)

/-- `row[name]` for a str -/
def getName : DRow → String → Res Val
  | plain _, _ => .error .typeError
  | lazy c enc hdr m, s =>
    match hdr with
    | none => .error .attrError
    | some h => match dget h s with | some i => getPos (lazy c enc hdr m) i | none => .error .keyError
  | head r h, s => match dget h s with | some i => getPos r i | none => .error .keyError
  | encode r es, s =>                        -- fixes/C13-encodedense-by-name.diff
    match headers r with
    | .error e => .error e
    | .ok h => match dget h s with | some i => getPos (encode r es) i | none => .error .keyError
  | keep r _ names _ _ _, s =>
    match dget names s with
    | some j => getPos r j
    | none => .error .indexError
  | label r _ _, s => getName r s
  | dropOne r ind, s =>                      -- fixes/C13-feats-header-map.diff
    match headers (dropOne r ind) with
    | .error e => .error e
    | .ok h => match dget h s with | some i => getPos (dropOne r ind) i | none => .error .keyError

def get (r : DRow) : Key → Res Val
  | .pos i => getPos r i
  | .name s => getName r s

/-- `list(row)` -/
def iter : DRow → Res (List Val)
  | plain v => .ok v
  | lazy c enc _ _ =>
    match enc with
    | none => .ok c.get
    | some [] => .ok c.get
    | some es => sequence (List.zipWith lazyApply es c.get)
  | head r _ => iter r
  | encode r es => match iter r with | .ok xs => sequence (List.zipWith Enc.apply es xs) | .error e => .error e
  | keep r _ _ sel _ _ => match iter r with | .ok xs => .ok (compress xs sel) | .error e => .error e
  | label r _ _ => iter r
  | dropOne r ind => match iter r with | .ok xs => .ok (xs.take ind ++ xs.drop (ind + 1)) | .error e => .error e

/-- the label wrapper reached through `__getattr__` forwarding (`feats`, `label`, `tipe`): every later wrapper passes these
attributes on unchanged, so they describe the row as it was when LabelRows saw it (recorded C13-F8; the proposed
fixes/C13-stale-feats-label.diff was not applied, see notes) -/
def labelOf : DRow → Option (DRow × Nat × Option String)
  | plain _ => none
  | lazy _ _ _ _ => none
  | head r _ => labelOf r
  | encode r _ => labelOf r
  | keep r _ _ _ _ _ => labelOf r
  | label r i t => some (r, i, t)
  | dropOne r _ => labelOf r

def feats (r : DRow) : Res DRow :=
  match labelOf r with
  | some (r0, i, _) => .ok (dropOne r0 i)
  | none => .error .attrError

def labelVal (r : DRow) : Res Val :=
  match labelOf r with
  | some (r0, i, _) => getPos r0 i
  | none => .error .attrError

def tipe (r : DRow) : Res (Option String) :=
  match labelOf r with
  | some (_, _, t) => .ok t
  | none => .error .attrError

/-- `Dense_.__eq__(self, o)` for a list-like `o`: `len(self)==len(o) and all(map(eq,self,o))`, any exception → False -/
def eqList (r : DRow) (o : List Val) : Bool :=
  if len r = o.length then
    match iter r with
    | .ok xs => (List.zipWith pyEq xs o).all id
    | .error _ => false
  else false

/-- every access loads the base row: `_row` becomes the loaded value -/
def touch : DRow → DRow
  | plain v => plain v
  | lazy c e h m => lazy c.touch e h m
  | head r h => head (touch r) h
  | encode r es => encode (touch r) es
  | keep r a b c d e => keep (touch r) a b c d e
  | label r i t => label (touch r) i t
  | dropOne r i => dropOne (touch r) i

end DRow

/-! ## sparse rows -/

abbrev KMap := List (Key × Key)

inductive SRow
  | plain (d : Dict)
  | lazy (cell : Cell Dict) (enc : List (Key × Enc)) (nsp : List Key) (fwd inv : KMap) (miss : Bool)
  | head (r : SRow) (fwd inv : KMap)
  | encode (r : SRow) (enc : List (Key × Enc)) (nsp : List Key)
  | drop (r : SRow) (ds : List Key)
  | label (r : SRow) (key : Key) (tipe : Option String)
  deriving Repr

/-- remove duplicates (sets are lists compared as sets; the order is irrelevant) -/
def dedup {α} [DecidableEq α] : List α → List α
  | [] => []
  | x :: xs => if x ∈ xs then dedup xs else x :: dedup xs

/-- the members of `b` that are not in `a`, once each: `set(b) - set(a)` -/
def kdiff (b a : List Key) : List Key := dedup (b.filter (fun k => !a.contains k))

/-- set union of key lists (left operand duplicate-free) -/
def kunion (a b : List Key) : List Key := a ++ kdiff b a

def encOf (enc : List (Key × Enc)) (k : Key) : Enc := (dget enc k).getD .ident

def mapMRes {α β} (f : α → Res β) : List α → Res (List β)
  | [] => .ok []
  | a :: t => match f a with
    | .error e => .error e
    | .ok b => match mapMRes f t with | .ok bs => .ok (b :: bs) | .error e => .error e

/-- apply a per-key function to the value of one dict entry -/
def applyEntry (f : Key → Val → Res Val) (p : Key × Val) : Res (Key × Val) :=
  match f p.1 p.2 with
  | .ok v => .ok (p.1, v)
  | .error e => .error e

/-- the explicit entry of a "not sparse" column whose key is absent: the encoded `"0"` -/
def zeroEntry (f : Key → Val → Res Val) (k : Key) : Res (Key × Val) :=
  match f k (.str "0") with
  | .ok v => .ok (k, v)
  | .error e => .error e

/-- `inv[k]` -/
def renameKey (inv : KMap) (k : Key) : Res Key :=
  match dget inv k with
  | some n => .ok n
  | none => .error .keyError

def renameEntry (inv : KMap) (p : Key × Val) : Res (Key × Val) :=
  match dget inv p.1 with
  | some n => .ok (n, p.2)
  | none => .error .keyError

/-- `self._enc[k]("0")` (EncodeSparse.items: a KeyError if `k` has no encoder) -/
def encZero (enc : List (Key × Enc)) (k : Key) (v : Val) : Res Val :=
  match dget enc k with
  | some e => e.apply v
  | none => .error .keyError

/-- LazySparse: the stored value of raw key `k`, `"0"` for an absent "not sparse" column, else KeyError; then encoded -/
def lazyValue (enc : List (Key × Enc)) (raw : Dict) (nsp : List Key) (k : Key) : Res Val :=
  match (match dget raw k with
         | some v => some v
         | none => if nsp.contains k then some (Val.str "0") else none) with
  | none => .error .keyError
  | some v => if enc.isEmpty then .ok v else lazyApply (encOf enc k) v

namespace SRow

def missing : SRow → Res Bool
  | plain _ => .error .attrError
  | lazy _ _ _ _ _ m => .ok m
  | head r _ _ => missing r
  | encode r _ _ => missing r
  | drop r _ => missing r
  | label r _ _ => missing r

/-- attribute `_inv` as LabelRows reads it (`getattr(first,'_inv',None) or {}`): the outermost header map
raw key → header name; wrappers without the slot forward to `_row`, a plain dict has none -/
def invOf : SRow → KMap
  | plain _ => []
  | lazy _ _ _ _ inv _ => inv
  | head _ _ inv => inv
  | encode r _ _ => invOf r
  | drop r _ => invOf r
  | label r _ _ => invOf r

/-- keys to which the row answers although the table it describes has no such key: a header-mapped LazySparse
resolves `key = self._fwd.get(key,key)`, so it also answers to its raw keys -/
def leak : SRow → List Key
  | plain _ => []
  | lazy _ _ _ fwd inv _ => if fwd.isEmpty then [] else inv.map (·.1)
  | head _ _ _ => []
  | encode r _ _ => leak r
  | drop r _ => leak r
  | label r _ _ => leak r

/-- `row.keys()` as a duplicate-free list -/
def keys : SRow → Res (List Key)
  | plain d => .ok (d.map (·.1))
  | lazy c _ nsp _ inv _ =>
    let ks := kunion (c.get.map (·.1)) nsp
    if inv.isEmpty then .ok ks
    else mapMRes (renameKey inv) ks
  | head r _ inv =>
    match keys r with
    | .error e => .error e
    | .ok ks => mapMRes (renameKey inv) ks
  | encode r _ nsp => match keys r with | .ok ks => .ok (kunion ks nsp) | .error e => .error e
  | drop r ds => match keys r with | .ok ks => .ok (ks.filter (fun k => !ds.contains k)) | .error e => .error e
  | label r key _ => match keys r with | .ok ks => .ok (kunion ks [key]) | .error e => .error e

def len : SRow → Res Nat
  | plain d => .ok d.length
  | lazy c _ nsp _ _ _ => .ok (kunion (c.get.map (·.1)) nsp).length      -- fixes/C13-lazysparse-len.diff
  | head r _ _ => len r
  | encode r e nsp => match keys (encode r e nsp) with | .ok ks => .ok ks.length | .error er => .error er
  | drop r ds => match keys (drop r ds) with | .ok ks => .ok ks.length | .error er => .error er
  | label r k t => match keys (label r k t) with | .ok ks => .ok ks.length | .error er => .error er

def get : SRow → Key → Res Val
  | plain d, k => match dget d k with | some v => .ok v | none => .error .keyError
  | lazy c enc nsp fwd _ _, k => lazyValue enc c.get nsp ((dget fwd k).getD k)
  | head r fwd _, k => match dget fwd k with | some k' => get r k' | none => .error .keyError
  | encode r enc nsp, k =>
    match get r k with
    | .ok v => (encOf enc k).apply v
    | .error .keyError => if nsp.contains k then (encOf enc k).apply (.str "0") else .error .keyError   -- fixes/C13-encodesparse-absent-key.diff
    | .error e => .error e
  | drop r ds, k => if ds.contains k then .error .keyError else get r k
  | label r key _, k =>
    match get r k with
    | .ok v => .ok v
    | .error .keyError => if k = key then .ok (.int 0) else .error .keyError
    | .error e => .error e

/-- `row.items()` -/
def items : SRow → Res Dict
  | plain d => .ok d
  | lazy c enc nsp _ inv _ =>
    let raw := c.get
    if enc.isEmpty then
      if inv.isEmpty then .ok raw else .ok (raw.map (fun p => ((dget inv p.1).getD p.1, p.2)))
    else
      let extra := (kdiff nsp (raw.map (·.1))).map (fun k => (k, Val.str "0"))
      match mapMRes (applyEntry (fun k v => lazyApply (encOf enc k) v)) (raw ++ extra) with
      | .error e => .error e
      | .ok its => .ok (its.map (fun p => ((if inv.isEmpty then p.1 else (dget inv p.1).getD p.1), p.2)))
  | head r _ inv =>
    match items r with
    | .error e => .error e
    | .ok its => mapMRes (renameEntry inv) its
  | encode r enc nsp =>
    match items r with
    | .error e => .error e
    | .ok its =>
      match mapMRes (applyEntry (fun k v => (encOf enc k).apply v)) its with
      | .error e => .error e
      | .ok t1 =>
        match mapMRes (zeroEntry (encZero enc)) (kdiff nsp (its.map (·.1))) with
        | .error e => .error e
        | .ok t2 => .ok (t1 ++ t2)
  | drop r ds => match items r with | .ok its => .ok (its.filter (fun p => !ds.contains p.1)) | .error e => .error e
  | label r key _ =>
    match items r with
    | .error e => .error e
    | .ok its => if (its.map (·.1)).contains key then .ok its else .ok (its ++ [(key, .int 0)])

/-- `dict(pairs)` -/
def toDict (its : Dict) : Dict := its.foldl (fun d p => dset d p.1 p.2) []

/-- the label wrapper reached through `__getattr__` forwarding (recorded C13-F9) -/
def labelOf : SRow → Option (SRow × Key × Option String)
  | plain _ => none
  | lazy _ _ _ _ _ _ => none
  | head r _ _ => labelOf r
  | encode r _ _ => labelOf r
  | drop r _ => labelOf r
  | label r k t => some (r, k, t)

def feats (r : SRow) : Res SRow :=
  match labelOf r with
  | some (r0, k, _) => .ok (drop r0 [k])
  | none => .error .attrError

def labelVal (r : SRow) : Res Val :=
  match labelOf r with
  | some (r0, k, t) => get (label r0 k t) k
  | none => .error .attrError

def tipe (r : SRow) : Res (Option String) :=
  match labelOf r with
  | some (_, _, t) => .ok t
  | none => .error .attrError

/-- python `dict == dict` on association lists with distinct keys -/
def dictEq (a b : Dict) : Bool :=
  a.length == b.length && a.all (fun p => match dget b p.1 with | some v => pyEq p.2 v | none => false)

/-- `Sparse_.__eq__(self, o)`: `dict(self.items()) == dict(o.items())`, any exception → False -/
def eqDict (r : SRow) (o : Dict) : Bool :=
  match items r with
  | .ok its => dictEq (toDict its) (toDict o)
  | .error _ => false

def touch : SRow → SRow
  | plain d => plain d
  | lazy c e n f i m => lazy c.touch e n f i m
  | head r f i => head (touch r) f i
  | encode r e n => encode (touch r) e n
  | drop r ds => drop (touch r) ds
  | label r k t => label (touch r) k t

end SRow

/-! ## the filters -/

inductive CatMode | onehot | onehotTuple | string
  deriving DecidableEq, Repr

inductive Pred
  | missing                         -- `attrgetter('missing')`
  | cellEq (k : Key) (v : Val)      -- `lambda row: row[k] == v`
  deriving Repr

inductive Stage
  | headNames (names : List String)          -- HeadRows(sequence)
  | headMap (m : List (String × Key))        -- HeadRows(mapping)
  | encodeSeq (es : List Enc)                -- EncodeRows(sequence)
  | encodeMap (m : List (Key × Enc))         -- EncodeRows(mapping)
  | drop (cols : List Key) (pred : Option Pred)
  | label (k : Key) (tipe : Option String)
  | enccat (t : Option CatMode)
  deriving Repr

def onehotOf (s : String) (lv : List String) : List Int := lv.map (fun l => if l = s then 1 else 0)


def isCat : Val → Bool
  | .cat _ _ => true
  | _ => false

def hasCat (vs : List Val) : Bool := vs.any isCat

/-- what EncodeCatRows puts in the place of one cell -/
def encodeCatCell (m : CatMode) (v : Val) : List Val :=
  match v with
  | .cat s lv =>
    match m with
    | .string => [Val.str s]
    | .onehotTuple => [Val.tup (onehotOf s lv)]
    | .onehot => (onehotOf s lv).map Val.int
  | v => [v]

/-- EncodeCatRows on a list -/
def catEncodeList (m : CatMode) (vs : List Val) : List Val := vs.flatMap (encodeCatCell m)

def keyStr : Key → String
  | .pos n => toString n
  | .name s => s

/-- EncodeCatRows' flat encoding of one dict entry: `for i,v in enumerate(h): if i != 0: o[f'{k}_{v}'] = i` -/
def flatSet (d : Dict) (k : Key) (h : List Int) : Dict :=
  (h.zipIdx.drop 1).foldl (fun d p => dset d (Key.name (keyStr k ++ "_" ++ toString p.1)) (Val.int p.2)) d

/-- what EncodeCatRows does to the dict `o` for one entry `p` of the row -/
def catStep (m : CatMode) (o : Dict) (p : Key × Val) : Dict :=
  match p.2 with
  | .cat s lv =>
    match m with
    | .string => dset o p.1 (Val.str s)
    | .onehotTuple => dset o p.1 (Val.tup (onehotOf s lv))
    | .onehot => flatSet (ddel o p.1) p.1 (onehotOf s lv)
  | _ => o

/-- EncodeCatRows on a dict (keys visited in the dict's own order) -/
def catEncodeDict (m : CatMode) (d : Dict) : Dict := d.foldl (catStep m) d

def zipNames (ns : List String) : Hdr := ns.zipIdx

/-- the header name of column `i` -/
def nameOf (h : Hdr) (i : Nat) : Option String := (h.find? (fun p => p.2 = i)).map (·.1)

/-- `names = { i:h for h,i in first.headers.items() }`: column → header name, as EncodeRows / DropRows build it -/
def posNames (h : Hdr) : List (Nat × String) := h.foldl (fun d p => dset d p.2 p.1) []

/-- `names.get(i)` -/
def posName (h : Hdr) (i : Nat) : Option String := dget (posNames h) i

/-- DropRows: is column `i` (with header name `nm`) kept -/
def keepCol (cols : List Key) (i : Nat) (nm : Option String) : Bool :=
  !cols.contains (.pos i) && (match nm with | some s => !cols.contains (.name s) | none => true)

/-- `DropRows.make_drop_row_args` for a dense first row with header map `h?` and length `n` -/
def makeDropArgs (h? : Option Hdr) (n : Nat) (cols : List Key) : List Nat × Hdr × List Bool × Nat × Option Hdr :=
  match h? with
  | some h =>
    let sel := (List.range n).map (fun i => keepCol cols i (posName h i))   -- fixes/C13-header-map-order.diff
    let idxs := compress (List.range n) sel
    let ext : Hdr := h.filterMap (fun p => (posOf idxs p.2).map (fun e => (p.1, e)))
    (idxs, h, sel, idxs.length, if h.isEmpty then none else some ext)
  | none =>
    let sel := (List.range n).map (fun i => keepCol cols i none)
    let idxs := compress (List.range n) sel
    (idxs, [], sel, idxs.length, none)

/-- HeadRows(mapping) on dense rows: the mapping's values are int positions -/
def hdrEntry (p : String × Key) : Option (String × Nat) :=
  match p.2 with
  | .pos i => some (p.1, i)
  | .name _ => none

/-- EncodeRows(mapping) on dense rows: `enc.get(h, enc.get(i, lambda x:x))` for column `i` with header name `nm` -/
def encFor (m : List (Key × Enc)) (nm : Option String) (i : Nat) : Enc :=
  match nm with
  | some s => (dget m (.name s)).getD ((dget m (.pos i)).getD .ident)
  | none => (dget m (.pos i)).getD .ident

/-- EncodeRows(mapping).filter on dense rows: the encoder list built from the first row -/
def encsOf (m : List (Key × Enc)) (r : DRow) : List Enc :=
  match r.headers with
  | .ok h => (List.range r.len).map (fun i => encFor m (posName h i) i)    -- fixes/C13-header-map-order.diff
  | .error _ => (List.range r.len).map (fun i => encFor m none i)

/-- DropRows.filter on dense rows: `make_drop_row_args(first, drop_cols)` -/
def dropArgsOf (r : DRow) (cols : List Key) : List Nat × Hdr × List Bool × Nat × Option Hdr :=
  makeDropArgs (match r.headers with | .ok h => some h | .error _ => none) r.len cols

def evalPredD : Option Pred → DRow → Res Bool      -- true = the row stays
  | none, _ => .ok true
  | some .missing, r => match r.missing with | .ok b => .ok (!b) | .error e => .error e
  | some (.cellEq k v), r => match r.get k with | .ok x => .ok (!(pyEq x v)) | .error e => .error e

def evalPredS : Option Pred → SRow → Res Bool
  | none, _ => .ok true
  | some .missing, r => match r.missing with | .ok b => .ok (!b) | .error e => .error e
  | some (.cellEq k v), r => match r.get k with | .ok x => .ok (!(pyEq x v)) | .error e => .error e

/-- one `*Rows.filter` on one dense row (`none` = the row predicate dropped it).  The filters derive
their arguments from the first row of the table; the table is rectangular, so the row itself is used. -/
def applyD : Stage → DRow → Res (Option DRow)
  | .headNames ns, r => .ok (some (.head r (zipNames ns)))
  | .headMap m, r =>
    .ok (some (.head r (m.filterMap hdrEntry)))
  | .encodeSeq es, r => .ok (some (.encode r es))
  | .encodeMap m, r =>
    .ok (some (.encode r (encsOf m r)))
  | .drop cols pred, r =>
    match evalPredD pred r with
    | .error e => .error e
    | .ok false => .ok none
    | .ok true =>
      if cols.isEmpty then .ok (some r)
      else
        let a := dropArgsOf r cols
        .ok (some (.keep r a.1 a.2.1 a.2.2.1 a.2.2.2.1 a.2.2.2.2))
  | .label k t, r =>
    match k with
    | .pos i => .ok (some (.label r i t))
    | .name s =>
      match r.headers with
      | .error e => .error e
      | .ok h => match dget h s with | some i => .ok (some (.label r i t)) | none => .error .keyError
  | .enccat none, r => .ok (some r)
  | .enccat (some m), r =>                    -- fixes/C13-enccat-lazy-rows.diff: the row is materialised by `.copy()`
    match r.iter with
    | .error e => .error e
    | .ok vs => if hasCat vs then .ok (some (.plain (catEncodeList m vs))) else .ok (some r)

def swapMap (m : KMap) : KMap := m.foldl (fun d p => dset d p.2 p.1) []

/-- LabelRows on sparse rows: rows with a header map are keyed by header name, so an int label is
translated to its header (`label = inv.get(label,label)`); a str label is used as it is -/
def labelKey (inv : KMap) (k : Key) : Key :=
  match k with
  | .pos _ => (dget inv k).getD k
  | .name _ => k

def nspOf (enc : List (Key × Enc)) : List Key := (enc.filter (fun p => zeroNonzero p.2)).map (·.1)

def hasCatD (d : Dict) : Bool := d.any (fun p => match p.2 with | .cat _ _ => true | _ => false)

def applyS : Stage → SRow → Res (Option SRow)
  | .headNames ns, r =>
    let fwd : KMap := ns.zipIdx.map (fun p => (Key.name p.1, Key.pos p.2))
    .ok (some (.head r fwd (swapMap fwd)))
  | .headMap m, r =>
    let fwd : KMap := m.map (fun p => (Key.name p.1, p.2))
    .ok (some (.head r fwd (swapMap fwd)))
  | .encodeSeq es, r =>
    let enc := es.zipIdx.map (fun p => (Key.pos p.2, p.1))
    .ok (some (.encode r enc (nspOf enc)))
  | .encodeMap m, r => .ok (some (.encode r m (nspOf m)))
  | .drop cols pred, r =>
    match evalPredS pred r with
    | .error e => .error e
    | .ok false => .ok none
    | .ok true => if cols.isEmpty then .ok (some r) else .ok (some (.drop r cols))
  | .label k t, r => .ok (some (.label r (labelKey r.invOf k) t))
  | .enccat none, r => .ok (some r)
  | .enccat (some m), r =>
    match r.items with
    | .error e => .error e
    | .ok its =>
      let d := SRow.toDict its
      if hasCatD d then .ok (some (.plain (catEncodeDict m d))) else .ok (some r)

def isName : Key → Bool
  | .name _ => true
  | .pos _ => false

/-- the stages do not address a hidden raw key of a header-mapped LazySparse base (`leaky` = the row below still has such keys):
a HeadRows directly over it must name header names, a row predicate `row[k]==v` must use a header name -/
def leakSafe : Bool → List Stage → Bool
  | _, [] => true
  | leaky, .headNames _ :: rest => !leaky && leakSafe false rest
  | leaky, .headMap m :: rest => (!leaky || m.all (fun p => isName p.2)) && leakSafe false rest
  | leaky, .drop _ (some (.cellEq k _)) :: rest => (!leaky || isName k) && leakSafe leaky rest
  | leaky, _ :: rest => leakSafe leaky rest

def buildD : List Stage → DRow → Res (Option DRow)
  | [], r => .ok (some r)
  | st :: rest, r =>
    match applyD st r with
    | .error e => .error e
    | .ok none => .ok none
    | .ok (some r') => buildD rest r'

def buildS : List Stage → SRow → Res (Option SRow)
  | [], r => .ok (some r)
  | st :: rest, r =>
    match applyS st r with
    | .error e => .error e
    | .ok none => .ok none
    | .ok (some r') => buildS rest r'

/-! ## base rows -/

inductive ColT | num | str | cat (lv : List String)
  deriving Repr

structure Col where
  name : String
  t : ColT
  deriving Repr

def Col.enc (sparse : Bool) (c : Col) : Enc :=
  match c.t with
  | .num => .anum
  | .str => .astr
  | .cat lv => .acat (if sparse then "0" :: lv else lv)     -- "0" is added to sparse nominal attributes

inductive DBase
  | plain (vals : List Val)
  | lazy (vals : List Val) (loader : Bool) (enc : Option (List Enc)) (hdr : Option (List String)) (miss : Bool)
  | arff (cols : List Col) (raw : List Val) (miss : Bool)
  deriving Repr

inductive SBase
  | plain (d : Dict)
  | lazy (d : Dict) (loader : Bool) (enc : List (Key × Enc)) (hdr : Option (List String)) (miss : Bool)
  | arff (cols : List Col) (raw : Dict) (miss : Bool)
  deriving Repr

def mkCell {α} (loader : Bool) (v : α) : Cell α := if loader then .pending v else .loaded v

def baseD : DBase → DRow
  | .plain v => .plain v
  | .lazy v loader enc hdr miss => .lazy (mkCell loader v) enc (hdr.map zipNames) miss
  | .arff cols raw miss => .lazy (.pending raw) (some (cols.map (Col.enc false))) (some (zipNames (cols.map (·.name)))) miss

def baseS : SBase → SRow
  | .plain d => .plain d
  | .lazy d loader enc hdr miss =>
    match hdr with
    | none => .lazy (mkCell loader d) enc [] [] [] miss
    | some ns =>
      .lazy (mkCell loader d) enc [] (ns.zipIdx.map (fun p => (Key.name p.1, Key.pos p.2)))
        (ns.zipIdx.map (fun p => (Key.pos p.2, Key.name p.1))) miss
  | .arff cols raw miss =>
    let encs := cols.zipIdx.map (fun p => (Key.pos p.2, Col.enc true p.1))
    .lazy (.pending raw) encs (nspOf encs)
      (cols.zipIdx.map (fun p => (Key.name p.1.name, Key.pos p.2)))
      (cols.zipIdx.map (fun p => (Key.pos p.2, Key.name p.1.name))) miss

/-! ## the eager specification: plain lists / dicts, stage by stage -/

/-- an eager dense row: the plain list, the header map name → column (a dict, in its own order; it may name only some of
the columns), the chosen label column, the `missing` flag of the source line (if the source provides one) -/
structure EagerD where
  cells : List Val
  hdr : Option Hdr
  lab : Option (Nat × Option String)
  miss : Option Bool
  deriving Repr

/-- an eager sparse row: the dict, the chosen label key, the `missing` flag of the source line, and the header
map raw key → name under which the table is currently keyed (empty when the keys are the raw keys) -/
structure EagerS where
  d : Dict
  lab : Option (Key × Option String)
  miss : Option Bool
  inv : KMap
  deriving Repr

/-- a header map over `n` columns: distinct names, distinct columns, every column exists -/
def hdrWF (h : Hdr) (n : Nat) : Bool :=
  decide (h.map (·.1)).Nodup && decide (h.map (·.2)).Nodup && h.all (fun p => decide (p.2 < n))

def hdrOK (hdr : Option (List String)) (n : Nat) : Bool :=
  match hdr with
  | some ns => hdrWF (zipNames ns) n
  | none => true

def eagerBaseD : DBase → Res EagerD
  | .plain v => .ok ⟨v, none, none, none⟩
  | .lazy v _ enc hdr miss =>
    if hdrOK hdr v.length then
      match enc with
      | none => .ok ⟨v, hdr.map zipNames, none, some miss⟩
      | some [] => .ok ⟨v, hdr.map zipNames, none, some miss⟩
      | some es =>
        if es.length = v.length then
          match sequence (List.zipWith lazyApply es v) with
          | .ok cells => .ok ⟨cells, hdr.map zipNames, none, some miss⟩
          | .error e => .error e
        else .error .valueError
    else .error .valueError
  | .arff cols raw miss =>
    if cols.length = raw.length ∧ hdrWF (zipNames (cols.map (·.name))) raw.length = true then
      match sequence (List.zipWith lazyApply (cols.map (Col.enc false)) raw) with
      | .ok cells => .ok ⟨cells, some (zipNames (cols.map (·.name))), none, some miss⟩
      | .error e => .error e
    else .error .valueError

/-- the name of column `i` -/
def EagerD.nameAt (e : EagerD) (i : Nat) : Option String :=
  match e.hdr with
  | some h => nameOf h i
  | none => none

/-- the column with a given name -/
def EagerD.colOf (e : EagerD) (s : String) : Option Nat :=
  match e.hdr with
  | some h => dget h s
  | none => none

/-- by-name lookup on the eager row -/
def EagerD.byName (e : EagerD) (s : String) : Option Val :=
  match e.colOf s with
  | some i => e.cells[i]?
  | none => none

def EagerD.get (e : EagerD) : Key → Option Val
  | .pos i => e.cells[i]?
  | .name s => e.byName s

def evalPredE (pred : Option Pred) (miss : Option Bool) (get : Key → Option Val) : Res Bool :=
  match pred with
  | none => .ok true
  | some .missing => match miss with | some b => .ok (!b) | none => .error .attrError
  | some (.cellEq k v) => match get k with | some x => .ok (!(pyEq x v)) | none => .error .keyError

/-- the kept column indices of an eager dense row, in order: neither the index nor the name is listed -/
def keptIdx (e : EagerD) (cols : List Key) : List Nat :=
  (List.range e.cells.length).filter (fun i => keepCol cols i (e.nameAt i))

/-- the header map after dropping columns: the entries of the kept columns, renumbered, in the map's own order -/
def extHdr (idxs : List Nat) (h : Hdr) : Hdr := h.filterMap (fun p => (posOf idxs p.2).map (fun j => (p.1, j)))

def eagerStageD : Stage → EagerD → Res (Option EagerD)
  | .headNames ns, e =>
    if hdrWF (zipNames ns) e.cells.length then .ok (some { e with hdr := some (zipNames ns) }) else .error .valueError
  | .headMap m, e =>
    -- any mapping name → column: in any order, for all or only some of the columns
    if (m.filterMap hdrEntry).length = m.length ∧ hdrWF (m.filterMap hdrEntry) e.cells.length = true then
      .ok (some { e with hdr := some (m.filterMap hdrEntry) })
    else .error .valueError
  | .encodeSeq es, e =>
    if es.length = e.cells.length then
      match sequence (List.zipWith Enc.apply es e.cells) with
      | .ok cells => .ok (some { e with cells := cells })
      | .error er => .error er
    else .error .valueError
  | .encodeMap m, e =>
    match sequence (e.cells.zipIdx.map (fun p => (encFor m (e.nameAt p.2) p.2).apply p.1)) with
    | .ok cells => .ok (some { e with cells := cells })
    | .error er => .error er
  | .drop cols pred, e =>
    match evalPredE pred e.miss e.get with
    | .error er => .error er
    | .ok false => .ok none
    | .ok true =>
      if cols.isEmpty then .ok (some e)
      else
        let idxs := keptIdx e cols
        match (match e.lab with
               | none => some none
               | some (i, t) => (posOf idxs i).map (fun j => some (j, t))) with
        | none => .error .keyError          -- the label column itself was dropped
        | some lab =>
          .ok (some { cells := idxs.filterMap (fun i => e.cells[i]?),
                      hdr := e.hdr.map (extHdr idxs),
                      lab := lab, miss := e.miss })
  | .label k t, e =>
    match (match k with
           | .pos i => some i
           | .name s => e.colOf s) with
    | none => .error .keyError
    | some i => if i < e.cells.length then .ok (some { e with lab := some (i, t) }) else .error .indexError
  | .enccat none, e => .ok (some e)
  | .enccat (some m), e =>
    if hasCat e.cells then .ok (some ⟨catEncodeList m e.cells, none, none, none⟩) else .ok (some e)

def eagerD : List Stage → EagerD → Res (Option EagerD)
  | [], e => .ok (some e)
  | st :: rest, e =>
    match eagerStageD st e with
    | .error er => .error er
    | .ok none => .ok none
    | .ok (some e') => eagerD rest e'

/-- the features part: the row without its label column, the header map without the label's name and renumbered -/
def EagerD.feats (e : EagerD) : Option EagerD :=
  match e.lab with
  | none => none
  | some (i, _) => some ⟨e.cells.eraseIdx i, e.hdr.map (DRow.shiftHdr i), none, e.miss⟩

def EagerD.labelVal (e : EagerD) : Option Val :=
  match e.lab with
  | none => none
  | some (i, _) => e.cells[i]?

/-! ### sparse -/

/-- encode the dict entries; a column whose encoded sparse zero is not 0 becomes explicit -/
def encodeDictN (enc : List (Key × Enc)) (nsp : List Key) (apply : Enc → Val → Res Val) (d : Dict) : Res Dict :=
  match mapMRes (applyEntry (fun k v => apply (encOf enc k) v)) d with
  | .error e => .error e
  | .ok t1 =>
    match mapMRes (zeroEntry (fun k v => apply (encOf enc k) v)) (kdiff nsp (d.map (·.1))) with
    | .error e => .error e
    | .ok t2 => .ok (t1 ++ t2)

/-- EncodeRows: the "not sparse" columns are those of `nspOf enc` -/
def encodeDictE (enc : List (Key × Enc)) (apply : Enc → Val → Res Val) (d : Dict) : Res Dict :=
  encodeDictN enc (nspOf enc) apply d

/-- what a LazySparse row with encoders `enc` and "not sparse" columns `nsp` loads eagerly (still keyed by raw keys) -/
def lazyDictE (enc : List (Key × Enc)) (nsp : List Key) (raw : Dict) : Res Dict :=
  if enc.isEmpty then .ok raw else encodeDictN enc nsp lazyApply raw

/-- rename the keys of a dict: every key needs a name -/
def renameE (inv : KMap) (d : Dict) : Res Dict := mapMRes (renameEntry inv) d

/-- a Python dict / mapping has distinct keys -/
def distinct {α} [DecidableEq α] (l : List α) : Bool := decide l.Nodup

def eagerBaseS : SBase → Res EagerS
  | .plain d => if distinct (d.map (·.1)) then .ok ⟨d, none, none, []⟩ else .error .valueError
  | .lazy d _ enc hdr miss =>
    if distinct (d.map (·.1)) && distinct (enc.map (·.1)) then
      match lazyDictE enc [] d with
      | .error e => .error e
      | .ok d' =>
        match hdr with
        | none => .ok ⟨d', none, some miss, []⟩
        | some ns =>
          let inv : KMap := ns.zipIdx.map (fun p => (Key.pos p.2, Key.name p.1))
          if distinct ns then
            match renameE inv d' with | .ok d'' => .ok ⟨d'', none, some miss, inv⟩ | .error e => .error e
          else .error .valueError
    else .error .valueError
  | .arff cols raw miss =>
    if distinct (raw.map (·.1)) && distinct (cols.map (·.name)) then
      let encs := cols.zipIdx.map (fun p => (Key.pos p.2, Col.enc true p.1))
      let inv : KMap := cols.zipIdx.map (fun p => (Key.pos p.2, Key.name p.1.name))
      match lazyDictE encs (nspOf encs) raw with
      | .error e => .error e
      | .ok d' => match renameE inv d' with | .ok d'' => .ok ⟨d'', none, some miss, inv⟩ | .error e => .error e
    else .error .valueError

/-- HeadRows on sparse rows: every key gets its name (names and keys pairwise distinct) -/
def eagerHeadS (inv : KMap) (e : EagerS) : Res (Option EagerS) :=
  if distinct (inv.map (·.1)) && distinct (inv.map (·.2)) then
    match renameE inv e.d with
    | .error er => .error er
    | .ok d' =>
      match (match e.lab with | none => some none | some (k, t) => (dget inv k).map (fun n => some (n, t))) with
      | none => .error .keyError
      | some lab => .ok (some ⟨d', lab, e.miss, inv⟩)
  else .error .valueError

def eagerStageS : Stage → EagerS → Res (Option EagerS)
  | .headNames ns, e => eagerHeadS (ns.zipIdx.map (fun p => (Key.pos p.2, Key.name p.1))) e
  | .headMap m, e => eagerHeadS (m.map (fun p => (p.2, Key.name p.1))) e
  | .encodeSeq es, e =>
    match encodeDictE (es.zipIdx.map (fun p => (Key.pos p.2, p.1))) Enc.apply e.d with
    | .ok d' => .ok (some { e with d := d' })
    | .error er => .error er
  | .encodeMap m, e =>
    if distinct (m.map (·.1)) then
      match encodeDictE m Enc.apply e.d with
      | .ok d' => .ok (some { e with d := d' })
      | .error er => .error er
    else .error .valueError
  | .drop cols pred, e =>
    match evalPredE pred e.miss (dget e.d) with
    | .error er => .error er
    | .ok false => .ok none
    | .ok true =>
      if cols.isEmpty then .ok (some e)
      else
        match e.lab with
        | some (k, t) =>
          if cols.contains k then .error .keyError
          else .ok (some ⟨e.d.filter (fun p => !cols.contains p.1), some (k, t), e.miss, e.inv⟩)
        | none => .ok (some ⟨e.d.filter (fun p => !cols.contains p.1), none, e.miss, e.inv⟩)
  | .label k t, e =>
    let k' := labelKey e.inv k
    .ok (some ⟨if (e.d.map (·.1)).contains k' then e.d else e.d ++ [(k', .int 0)], some (k', t), e.miss, e.inv⟩)
  | .enccat none, e => .ok (some e)
  | .enccat (some m), e =>
    if hasCatD e.d then .ok (some ⟨catEncodeDict m e.d, none, none, []⟩) else .ok (some e)

def eagerS : List Stage → EagerS → Res (Option EagerS)
  | [], e => .ok (some e)
  | st :: rest, e =>
    match eagerStageS st e with
    | .error er => .error er
    | .ok none => .ok none
    | .ok (some e') => eagerS rest e'

def EagerS.feats (e : EagerS) : Option EagerS :=
  match e.lab with
  | none => none
  | some (k, _) => some ⟨e.d.filter (fun p => p.1 ≠ k), none, e.miss, e.inv⟩

def EagerS.labelVal (e : EagerS) : Option Val :=
  match e.lab with
  | none => none
  | some (k, _) => dget e.d k

/-! ## accesses and observations -/

inductive Other
  | list (l : List Val)
  | dict (d : Dict)
  deriving Repr

inductive Acc
  | pos (i : Nat) | name (k : Key) | iter | len | keys | items | copy | headers
  | eq (o : Other) | label | tipe | feats (sub : Acc)
  | clone (sub : Acc)      -- copy.copy / copy.deepcopy / pickle round trip of the row at this point, then `sub` on the copy
  deriving Repr

inductive Obs
  | val (v : Val) | vals (l : List Val) | nat (n : Nat) | keys (l : List Key) | dict (d : Dict)
  | hdr (h : Hdr) | bool (b : Bool) | ostr (s : Option String)
  | err       -- the access raises
  | undef     -- no claim (spec side) / not applicable
  deriving Repr

def ofRes {α} (f : α → Obs) : Res α → Obs
  | .ok a => f a
  | .error _ => .err

def obsD (r : DRow) : Acc → Obs
  | .pos i => ofRes .val (r.getPos i)
  | .name k => ofRes .val (r.get k)
  | .iter => ofRes .vals r.iter
  | .copy => ofRes .vals r.iter
  | .len => .nat r.len
  | .headers => ofRes .hdr r.headers
  | .eq (.list o) => .bool (r.eqList o)
  | .eq (.dict _) => .undef
  | .keys => .undef
  | .items => .undef
  | .label => ofRes .val r.labelVal
  | .tipe => ofRes .ostr r.tipe
  | .feats sub => match r.feats with | .ok f => obsD f sub | .error _ => .err
  | .clone sub => obsD r sub          -- a copy of a row is the row (same wrapper tree, same base data, same load-once cell state)

def obsS (r : SRow) : Acc → Obs
  | .pos _ => .undef
  | .name k => ofRes .val (r.get k)
  | .iter => ofRes .keys r.keys
  | .keys => ofRes .keys r.keys
  | .items => ofRes .dict r.items
  | .copy => ofRes (fun its => .dict (SRow.toDict its)) r.items
  | .len => ofRes .nat r.len
  | .headers => .undef
  | .eq (.dict o) => .bool (r.eqDict o)
  | .eq (.list _) => .undef
  | .label => ofRes .val r.labelVal
  | .tipe => ofRes .ostr r.tipe
  | .feats sub => match r.feats with | .ok f => obsS f sub | .error _ => .err
  | .clone sub => obsS r sub

/-- what the eager row gives (`undef` = the eager row defines no value for this access) -/
def eagerObsD (e : EagerD) : Acc → Obs
  | .pos i => match e.cells[i]? with | some v => .val v | none => .err
  | .name k => match e.get k with | some v => .val v | none => .undef
  | .iter => .vals e.cells
  | .copy => .vals e.cells
  | .len => .nat e.cells.length
  | .headers => match e.hdr with | some h => .hdr h | none => .err
  | .eq (.list o) => .bool (e.cells.length == o.length && (List.zipWith pyEq e.cells o).all id)
  | .eq (.dict _) => .undef
  | .keys => .undef
  | .items => .undef
  | .label => match e.labelVal with | some v => .val v | none => .undef
  | .tipe => match e.lab with | some (_, t) => .ostr t | none => .undef
  | .feats sub => match e.feats with | some f => eagerObsD f sub | none => .undef
  | .clone sub => eagerObsD e sub     -- copying a plain list changes nothing

def eagerObsS (e : EagerS) : Acc → Obs
  | .pos _ => .undef
  | .name k => match dget e.d k with | some v => .val v | none => .undef
  | .iter => .keys (e.d.map (·.1))
  | .keys => .keys (e.d.map (·.1))
  | .items => .dict e.d
  | .copy => .dict e.d
  | .len => .nat e.d.length
  | .headers => .undef
  | .eq (.dict o) => .bool (SRow.dictEq e.d (SRow.toDict o))
  | .eq (.list _) => .undef
  | .label => match e.labelVal with | some v => .val v | none => .undef
  | .tipe => match e.lab with | some (_, t) => .ostr t | none => .undef
  | .feats sub => match e.feats with | some f => eagerObsS f sub | none => .undef
  | .clone sub => eagerObsS e sub

/-- the access without its copy steps -/
def Acc.strip : Acc → Acc
  | .feats sub => .feats sub.strip
  | .clone sub => sub.strip
  | a => a

/-! ## histories of accesses on one row object -/

/-- one access on the row object: the observation and the object afterwards (the base row is now loaded) -/
def stepD (r : DRow) (a : Acc) : Obs × DRow := (obsD r a, r.touch)
def stepS (r : SRow) (a : Acc) : Obs × SRow := (obsS r a, r.touch)

def runD : DRow → List Acc → List Obs
  | _, [] => []
  | r, a :: as => (stepD r a).1 :: runD (stepD r a).2 as

def runS : SRow → List Acc → List Obs
  | _, [] => []
  | r, a :: as => (stepS r a).1 :: runS (stepS r a).2 as

/-! ## tables -/

/-- rows that survive the row predicates, after all stages -/
def tableD (stages : List Stage) (rows : List DBase) : Res (List DRow) :=
  match mapMRes (fun b => buildD stages (baseD b)) rows with
  | .ok rs => .ok (rs.filterMap id)
  | .error e => .error e

def tableS (stages : List Stage) (rows : List SBase) : Res (List SRow) :=
  match mapMRes (fun b => buildS stages (baseS b)) rows with
  | .ok rs => .ok (rs.filterMap id)
  | .error e => .error e

def eagerTableD (stages : List Stage) (rows : List DBase) : Res (List EagerD) :=
  match mapMRes (fun b => match eagerBaseD b with | .ok e => eagerD stages e | .error er => .error er) rows with
  | .ok rs => .ok (rs.filterMap id)
  | .error e => .error e

def eagerTableS (stages : List Stage) (rows : List SBase) : Res (List EagerS) :=
  match mapMRes (fun b => match eagerBaseS b with | .ok e => eagerS stages e | .error er => .error er) rows with
  | .ok rs => .ok (rs.filterMap id)
  | .error e => .error e

/-! ## the first row of a table

`HeadRows/EncodeRows/DropRows/LabelRows/EncodeCatRows.filter` peek at the first incoming row and derive their
arguments from it (`first.headers`, `len(first)`, the positions of the categoricals in `first`); `applyD` above
derives them from each row itself.  `applyD1` is the literal version; `sameShape` says when the two coincide. -/

/-- `catkey(first)`: the positions of the categorical cells -/
def catIdx (vs : List Val) : List Nat := (vs.zipIdx.filter (fun p => isCat p.1)).map (·.2)

/-- `catset` on one cell that `first` has as categorical: `str(o[k])` / `o[k].as_onehot` -/
def encodeCell (m : CatMode) (v : Val) : Res (List Val) :=
  if isCat v then .ok (encodeCatCell m v)
  else
    match m with
    | .string => match Enc.toStr.apply v with | .ok x => .ok [x] | .error e => .error e
    | _ => .error .attrError

/-- EncodeCatRows on a list with the categorical positions `ks` taken from the first row -/
def catEncodeAt (m : CatMode) (ks : List Nat) (vs : List Val) : Res (List Val) :=
  if ks.all (fun k => k < vs.length) then
    match sequence (vs.zipIdx.map (fun p => if ks.contains p.2 then encodeCell m p.1 else .ok [p.1])) with
    | .ok parts => .ok parts.flatten
    | .error e => .error e
  else .error .indexError

/-- one `*Rows.filter` on one dense row, its arguments derived from the first row `f` of the incoming table -/
def applyD1 : Stage → DRow → DRow → Res (Option DRow)
  | .encodeMap m, f, r => .ok (some (.encode r (encsOf m f)))
  | .drop cols pred, f, r =>
    match evalPredD pred r with
    | .error e => .error e
    | .ok false => .ok none
    | .ok true =>
      if cols.isEmpty then .ok (some r)
      else
        let a := dropArgsOf f cols
        .ok (some (.keep r a.1 a.2.1 a.2.2.1 a.2.2.2.1 a.2.2.2.2))
  | .label (.name s) t, f, r =>
    match f.headers with
    | .error e => .error e
    | .ok h => match dget h s with | some i => .ok (some (.label r i t)) | none => .error .keyError
  | .enccat (some m), f, r =>
    match f.iter with
    | .error e => .error e
    | .ok fv =>
      if (catIdx fv).isEmpty then .ok (some r)
      else
        match r.iter with
        | .error e => .error e
        | .ok vs => match catEncodeAt m (catIdx fv) vs with | .ok o => .ok (some (.plain o)) | .error e => .error e
  | st, _, r => applyD st r

/-- the two rows look alike to the filters: same length, same header map, categoricals at the same positions -/
def sameShape (f r : DRow) : Bool :=
  f.len == r.len &&
  (match f.headers, r.headers with | .ok a, .ok b => a == b | .error _, .error _ => true | _, _ => false) &&
  (match f.iter, r.iter with | .ok a, .ok b => catIdx a == catIdx b | _, _ => false)

def collect {α} (rs : Res (List (Option α))) : Res (List α) :=
  match rs with
  | .ok l => .ok (l.filterMap id)
  | .error e => .error e

/-- one stage over a table, arguments from its first row (as the code does) -/
def stageTable1 (st : Stage) (rows : List DRow) : Res (List DRow) :=
  match rows with
  | [] => .ok []
  | f :: _ => collect (mapMRes (applyD1 st f) rows)

/-- one stage over a table, arguments from each row itself (what the per-row theorems are about) -/
def stageTable0 (st : Stage) (rows : List DRow) : Res (List DRow) := collect (mapMRes (applyD st) rows)

def runStages1 : List Stage → List DRow → Res (List DRow)
  | [], rows => .ok rows
  | st :: rest, rows => match stageTable1 st rows with | .ok rows' => runStages1 rest rows' | .error e => .error e

def runStages0 : List Stage → List DRow → Res (List DRow)
  | [], rows => .ok rows
  | st :: rest, rows => match stageTable0 st rows with | .ok rows' => runStages0 rest rows' | .error e => .error e

/-- at every stage all incoming rows look like the first one -/
def uniformRun : List Stage → List DRow → Bool
  | [], _ => true
  | st :: rest, rows =>
    (match rows with | [] => true | f :: _ => rows.all (sameShape f)) &&
    (match stageTable1 st rows with | .ok rows' => uniformRun rest rows' | .error _ => true)

/-- the dense table as the code computes it: stage after stage, every stage looking at the first incoming row -/
def tableD1 (stages : List Stage) (rows : List DBase) : Res (List DRow) := runStages1 stages (rows.map baseD)

/-! ## the first dict of a sparse table

On dict rows two filters look at the first incoming row only: `LabelRows` reads `first._inv` (the map raw key → header name with
which a positional label is translated), `EncodeCatRows` reads `catkey(first.copy())` (the keys whose values are categoricals)
and then does `o[k] = str(o[k])` / `o[k].as_onehot` / `o.pop(k).as_onehot` at exactly those keys in every row.
`applyS` derives both from each row itself; `applyS1` is the literal version; `sameShapeS` says when the two coincide. -/

/-- `catkey(first)`: the keys of the categorical entries, in the dict's order -/
def catKeysD (d : Dict) : List Key := (d.filter (fun p => isCat p.2)).map (·.1)

/-- `catset` for one key that the first dict has as categorical -/
def encodeAtKey (m : CatMode) (o : Dict) (k : Key) : Res Dict :=
  match dget o k with
  | none => .error .keyError
  | some v =>
    match m with
    | .string => match Enc.toStr.apply v with | .ok x => .ok (dset o k x) | .error e => .error e
    | .onehotTuple => match v with | .cat s lv => .ok (dset o k (Val.tup (onehotOf s lv))) | _ => .error .attrError
    | .onehot => match v with | .cat s lv => .ok (flatSet (ddel o k) k (onehotOf s lv)) | _ => .error .attrError

/-- EncodeCatRows on a dict with the categorical keys `ks` taken from the first dict -/
def catEncodeAtD (m : CatMode) : List Key → Dict → Res Dict
  | [], o => .ok o
  | k :: ks, o => match encodeAtKey m o k with | .ok o' => catEncodeAtD m ks o' | .error e => .error e

/-- one `*Rows.filter` on one sparse row, its arguments derived from the first row `f` of the incoming table -/
def applyS1 : Stage → SRow → SRow → Res (Option SRow)
  | .label k t, f, r => .ok (some (.label r (labelKey f.invOf k) t))
  | .enccat (some m), f, r =>
    match f.items with
    | .error e => .error e
    | .ok fits =>
      -- no categorical in the first dict: `yield from rows`, no row is touched (not even materialised)
      if (catKeysD (SRow.toDict fits)).isEmpty then .ok (some r)
      else
        match r.items with
        | .error e => .error e
        | .ok its =>
          match catEncodeAtD m (catKeysD (SRow.toDict fits)) (SRow.toDict its) with
          | .ok o => .ok (some (.plain o))
          | .error e => .error e
  | st, _, r => applyS st r

/-- the names `f'{k}_{v}'` the flat one-hot encoding adds for key `k` -/
def genNames (k : Key) (h : List Int) : List Key := (h.zipIdx.drop 1).map (fun p => Key.name (keyStr k ++ "_" ++ toString p.1))

/-- none of the names the flat one-hot encoding adds is already a key of the dict -/
def noClash (d : Dict) : Bool :=
  d.all (fun p => match p.2 with
    | .cat s lv => (genNames p.1 (onehotOf s lv)).all (fun g => !(d.map (·.1)).contains g)
    | _ => true)

/-- the two dict rows look alike to the filters: same `_inv`, categoricals at the same keys (in the same order);
and the row's own keys are distinct and do not clash with the generated one-hot names -/
def sameShapeS (f r : SRow) : Bool :=
  f.invOf == r.invOf &&
  (match f.items, r.items with
   | .ok a, .ok b =>
     catKeysD (SRow.toDict a) == catKeysD (SRow.toDict b) && decide ((SRow.toDict b).map (·.1)).Nodup && noClash (SRow.toDict b)
   | _, _ => false)

def stageTableS1 (st : Stage) (rows : List SRow) : Res (List SRow) :=
  match rows with
  | [] => .ok []
  | f :: _ => collect (mapMRes (applyS1 st f) rows)

def stageTableS0 (st : Stage) (rows : List SRow) : Res (List SRow) := collect (mapMRes (applyS st) rows)

def runStagesS1 : List Stage → List SRow → Res (List SRow)
  | [], rows => .ok rows
  | st :: rest, rows => match stageTableS1 st rows with | .ok rows' => runStagesS1 rest rows' | .error e => .error e

def runStagesS0 : List Stage → List SRow → Res (List SRow)
  | [], rows => .ok rows
  | st :: rest, rows => match stageTableS0 st rows with | .ok rows' => runStagesS0 rest rows' | .error e => .error e

/-- at every stage all incoming dict rows look like the first one -/
def uniformRunS : List Stage → List SRow → Bool
  | [], _ => true
  | st :: rest, rows =>
    (match rows with | [] => true | f :: _ => rows.all (sameShapeS f)) &&
    (match stageTableS1 st rows with | .ok rows' => uniformRunS rest rows' | .error _ => true)

/-- the sparse table as the code computes it: stage after stage, every stage looking at the first incoming row -/
def tableS1 (stages : List Stage) (rows : List SBase) : Res (List SRow) := runStagesS1 stages (rows.map baseS)

/-! ## one set of filter objects, several tables -/

/-- a table and the stages applied to it by filter objects of its own (`pre`), before the shared filter objects -/
inductive Table
  | dense (pre : List Stage) (rows : List DBase)
  | sparse (pre : List Stage) (rows : List SBase)
  deriving Repr

inductive TableOut
  | dense (r : Res (List DRow))
  | sparse (r : Res (List SRow))

/-- one `filter()` call of every filter object of the pipeline on one table: what comes out, and the filter objects
afterwards.  None of the `*Rows.filter` methods assigns an attribute of `self` (the arguments derived from the
first row are locals), so the objects are what they were. -/
def runTable (fs : List Stage) : Table → TableOut × List Stage
  | .dense pre rows => (.dense (tableD1 (pre ++ fs) rows), fs)
  | .sparse pre rows => (.sparse (tableS1 (pre ++ fs) rows), fs)

/-- the same filter objects process the tables one after the other -/
def session : List Stage → List Table → List TableOut
  | _, [] => []
  | fs, t :: ts => (runTable fs t).1 :: session (runTable fs t).2 ts

/-! ## Phase 4: exception CLASSES (IndexError / KeyError / TypeError / ValueError / AttributeError), not only "raises" -/

/-- the class of the exception a result carries (`none`: no exception) -/
def errOf {α} : Res α → Option Err
  | .ok _ => none
  | .error e => some e

/-- the exception class the lazy dense row raises on the access (`none`: it does not raise) -/
def errD (r : DRow) : Acc → Option Err
  | .pos i => errOf (r.getPos i)
  | .name k => errOf (r.get k)
  | .iter => errOf r.iter
  | .copy => errOf r.iter
  | .headers => errOf r.headers
  | .label => errOf r.labelVal
  | .tipe => errOf r.tipe
  | .feats sub => match r.feats with | .ok f => errD f sub | .error e => some e
  | .clone sub => errD r sub
  | _ => none

/-- the exception class the lazy sparse row raises on the access -/
def errS (r : SRow) : Acc → Option Err
  | .name k => errOf (r.get k)
  | .iter => errOf r.keys
  | .keys => errOf r.keys
  | .items => errOf r.items
  | .copy => errOf r.items
  | .len => errOf r.len
  | .label => errOf r.labelVal
  | .tipe => errOf r.tipe
  | .feats sub => match r.feats with | .ok f => errS f sub | .error e => some e
  | .clone sub => errS r sub
  | _ => none

/-- what a plain Python list raises: `l[i]` beyond the end is an IndexError; iteration, `len`, `==`, copying never raise -/
def eagerErrD (e : EagerD) : Acc → Option Err
  | .pos i => if i < e.cells.length then none else some .indexError
  | .clone sub => eagerErrD e sub
  | _ => none

/-- what a plain Python dict raises: `d[k]` for an absent key is a KeyError; keys / items / len / copy never raise -/
def eagerErrS (e : EagerS) : Acc → Option Err
  | .name k => match dget e.d k with | some _ => none | none => some .keyError
  | .clone sub => eagerErrS e sub
  | _ => none

/-- the accesses a plain list answers (or refuses) by itself: position, iteration, copy, len, ==, and copies thereof -/
def Acc.listAccess : Acc → Bool
  | .pos _ | .iter | .copy | .len | .eq _ => true
  | .clone sub => sub.listAccess
  | _ => false

/-- the accesses a plain dict answers (or refuses) by itself, by-key access restricted to keys satisfying `P` -/
def Acc.dictAccess (P : Key → Prop) : Acc → Prop
  | .name k => P k
  | .iter | .keys | .items | .copy | .len | .eq _ => True
  | .clone sub => sub.dictAccess P
  | _ => False

/-- the public protocol of the row-view classes that the access language `Acc` (plus the attribute forwarding of
`missing`) covers: every public method / property a row-view class of coba/pipes/rows.py may define.  The translator
(`Generated/C13Methods.lean`) extracts what the classes DO define; `methods_covered` proves the two lists are equal.
`__getitem__` = `Acc.pos`/`Acc.name`, `__iter__` = `.iter`, `__len__` = `.len`, `__eq__` = `.eq`, `copy` = `.copy`, `keys`/`items` = `.keys`/`.items`,
`headers` = `.headers` (and `missing`: both reached through `__getattr__`, the attribute forwarding `DRow.headers`/`missing`), `feats` = `.feats`,
`label` = `.label`, `tipe` = `.tipe`, `labeled` = the triple of the three, `__init__` = the constructors of `DRow`/`SRow`. -/
def coveredMethods : List String :=
  ["__eq__", "__getattr__", "__getitem__", "__init__", "__iter__", "__len__", "copy", "feats", "headers", "items", "keys",
   "label", "labeled", "tipe"]

def allCovered (ms : List String) : Bool := ms.all (fun m => coveredMethods.contains m)

/-! ## Phase 5: attribute forwarding through chains of wrapping views, `__getattr__` guard, `==` against another length -/

/-- a wrapping dense view (every class of coba/pipes/rows.py that wraps a row), as an operation on the row below -/
inductive DWrap
  | head (h : Hdr)
  | encode (es : List Enc)
  | keep (idxs : List Nat) (names : Hdr) (sel : List Bool) (len : Nat) (hdr : Option Hdr)
  | label (ind : Nat) (tipe : Option String)
  | dropOne (ind : Nat)
  deriving Repr

def DWrap.app : DWrap → DRow → DRow
  | .head h, r => .head r h
  | .encode es, r => .encode r es
  | .keep a b c d e, r => .keep r a b c d e
  | .label i t, r => .label r i t
  | .dropOne i, r => .dropOne r i

/-- the view has no `headers` slot / property of its own: the attribute is answered by `__getattr__`, i.e. by the row below
(EncodeDense, LabelDense, and a KeepDense built over a header-less row: `headers=None` is not stored) -/
def DWrap.transparent : DWrap → Bool
  | .encode _ => true
  | .label _ _ => true
  | .keep _ _ _ _ none => true
  | _ => false

/-- a chain of wrapping views put around `r`, innermost first -/
def wrapD (ws : List DWrap) (r : DRow) : DRow := ws.foldl (fun r w => w.app r) r

inductive SWrap
  | head (fwd inv : KMap)
  | encode (enc : List (Key × Enc)) (nsp : List Key)
  | drop (ds : List Key)
  | label (key : Key) (tipe : Option String)
  deriving Repr

def SWrap.app : SWrap → SRow → SRow
  | .head f i, r => .head r f i
  | .encode e n, r => .encode r e n
  | .drop ds, r => .drop r ds
  | .label k t, r => .label r k t

/-- no `_inv` slot of its own (EncodeSparse, DropSparse, LabelSparse): `_inv` is answered by `__getattr__` -/
def SWrap.transparent : SWrap → Bool
  | .head _ _ => false
  | _ => true

def wrapS (ws : List SWrap) (r : SRow) : SRow := ws.foldl (fun r w => w.app r) r

/-- `EncodeRows({}).filter` applied `d` times on top of a dense row (each time an EncodeDense with identity encoders, built from the
row it is given): the probe the harness uses to look at `headers` / `missing` through 1, 2, 3 extra wrapping views -/
def probeD : Nat → DRow → DRow
  | 0, r => r
  | d + 1, r => probeD d (.encode r (encsOf [] r))

/-- `EncodeRows({}).filter` applied `d` times on top of a sparse row (an EncodeSparse without encoders) -/
def probeS : Nat → SRow → SRow
  | 0, r => r
  | d + 1, r => probeS d (.encode r [] (nspOf []))

/-- the guard of `Dense/Dense_/Sparse/Sparse_.__getattr__`: `if attr == '_row': raise AttributeError(attr)`, everything else is
`getattr(self._row, attr)`.  `(operator, constant)` as the translator extracts it (`Generated/C13Methods.lean`, `getattrGuards`). -/
def forwardGuard : String × String := ("Eq", "_row")

/-- is the attribute forwarded to `_row` by `__getattr__` (every attribute except `_row` itself; in particular `_inv`, `_fwd`, `headers`, `missing`,
`feats`, `label`, `tipe`) -/
def forwarded (attr : String) : Bool := attr != forwardGuard.2

/-- the four base classes of the row views carrying `__getattr__` / `__eq__` / `copy` -/
def baseClasses : List String := ["Dense", "Dense_", "Sparse", "Sparse_"]

/-- per concrete row-view class of coba/pipes/rows.py: does it define `__eq__`, `__len__`, `__iter__`, `__getattr__` itself
(`__eq__` and `__getattr__` never: equality and forwarding are the base classes'; `__len__` / `__iter__` always) -/
def protocolTable : List (String × Bool × Bool × Bool × Bool) :=
  ["LazyDense", "LazySparse", "HeadDense", "HeadSparse", "EncodeDense", "EncodeSparse", "DropOne", "KeepDense", "DropSparse",
   "LabelDense", "LabelSparse"].map (fun c => (c, false, true, true, false))

/-- the `zip_longest`-style comparison that does NOT look at the lengths (the shorter side is padded with `None`): what `==` must not be -/
def padZip : List Val → List Val → List (Val × Val)
  | [], ys => ys.map (fun y => (Val.none, y))
  | x :: xs, [] => (x, .none) :: padZip xs []
  | x :: xs, y :: ys => (x, y) :: padZip xs ys

def eqPadded (xs o : List Val) : Bool := (padZip xs o).all (fun p => pyEq p.1 p.2)

/-- DropRows with the row predicate evaluated on the column-dropped VIEW instead of on the given row (what the filter must not do) -/
def dropOnView (cols : List Key) (pred : Option Pred) (r : DRow) : Res (Option DRow) :=
  match applyD (.drop cols none) r with
  | .ok (some v) => (match evalPredD pred v with | .error e => .error e | .ok false => .ok none | .ok true => .ok (some v))
  | x => x

def dropOnViewS (cols : List Key) (pred : Option Pred) (r : SRow) : Res (Option SRow) :=
  match applyS (.drop cols none) r with
  | .ok (some v) => (match evalPredS pred v with | .error e => .error e | .ok false => .ok none | .ok true => .ok (some v))
  | x => x

/-- the filter dropped the row / kept a row (as Booleans, for statements about concrete tables) -/
def rowDropped {α} : Res (Option α) → Bool
  | .ok none => true
  | _ => false

def rowKept {α} : Res (Option α) → Bool
  | .ok (some _) => true
  | _ => false

def rowRaised {α} : Res (Option α) → Bool
  | .error _ => true
  | _ => false

/-! ## Phase 6: iteration element by element (early consumer stop, abandoned iterators, the order in which a failing cell raises)

`iter(row)` of a dense view is a lazy pipeline of generators: `LazyDense._enc_all`, the generator expression of `EncodeDense.__iter__` over
`zip(self._encoders, self._row)`, `itertools.compress(self._row, self._sel)` (KeepDense), `chain(islice(row, ind), islice(row, ind+1, None))`
(DropOne: TWO independent iterations of the inner row, the second one skipping — and thereby evaluating — the first `ind+1` elements).
`DRow.stream` is the outcome of each `next()` of that pipeline, in order; a consumer sees the values up to the first raising element. -/

/-- `itertools.compress(data, selectors)` over lazily produced data: the datum is pulled BEFORE the selector, so a raising datum raises whatever its
selector says, and nothing is pulled once the selectors are used up -/
def compressS : List (Res Val) → List Bool → List (Res Val)
  | [], _ => []
  | .error e :: _, _ => [.error e]
  | .ok _ :: _, [] => []
  | .ok x :: xs, b :: bs => if b then .ok x :: compressS xs bs else compressS xs bs

/-- `e(v)` for a `v` that is itself the outcome of the inner `next()` -/
def bindRes (f : Val → Res Val) : Res Val → Res Val
  | .ok x => f x
  | .error e => .error e

/-- `islice(row, ind+1, None)` of a second iteration, appended to the first `ind` elements: skipping evaluates element `ind` -/
def dropOneS (s : List (Res Val)) (ind : Nat) : List (Res Val) :=
  s.take ind ++ (match s.drop ind with | [] => [] | .error e :: _ => [.error e] | .ok _ :: t => t)

/-- the outcome of every `next()` on `iter(row)`, in order -/
def DRow.stream : DRow → List (Res Val)
  | .plain v => v.map .ok
  | .lazy c enc _ _ =>
    match enc with
    | none => c.get.map .ok
    | some [] => c.get.map .ok
    | some es => List.zipWith lazyApply es c.get
  | .head r _ => stream r
  | .encode r es => List.zipWith (fun e x => bindRes e.apply x) es (stream r)
  | .keep r _ _ sel _ _ => compressS (stream r) sel
  | .label r _ _ => stream r
  | .dropOne r ind => dropOneS (stream r) ind

/-- a consumer that calls `next()` at most `n` times and then abandons the iterator: the values it got, and the exception that ended it (if any) -/
def pull : Nat → List (Res Val) → List Val × Option Err
  | 0, _ => ([], none)
  | _ + 1, [] => ([], none)
  | n + 1, .ok x :: t => ((pull n t).1.cons x, (pull n t).2)
  | _ + 1, .error e :: _ => ([], some e)

/-- `list(islice(iter(row), n))` -/
def DRow.takeN (r : DRow) (n : Nat) : List Val × Option Err := pull n r.stream

/-- the partial iteration loads the base row (`_load_or_get`); nothing else of the row object changes -/
def stepTake (r : DRow) (n : Nat) : (List Val × Option Err) × DRow := (r.takeN n, r.touch)

end Coba.C13
