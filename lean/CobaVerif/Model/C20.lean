/-
Model of `coba/encodings.py` class `InteractionsEncoder` (`__init__`, `encode`, `_pows`,
`_cross`) and the specification it is compared with.  Import-free (core Lean only).

Numbers are exact rationals (`Rat`; the harness only sends values on which every float product
is exact).  "Multiplication" is a parameter: `*` with unit `1` for feature values, `++` with unit
`""` for feature names, and the componentwise product on (name, value) pairs for the sparse
specification.  Nothing below needs algebraic laws: the specification nests products exactly
as the statement reads (a monomial is `v₁·(v₂·(…·1))`, a term is the left-major outer product of
its namespace factors), so the theorems hold for every `mul`/`one`.

Three recorded defects of the current code are switchable (`Cfg`): the model with all three
switches on (`Cfg.fixed`) mirrors the code with the proposed fixes and is what the property
theorems are about; with all switches off (`Cfg.current`) it mirrors the unchanged tree.
-/
namespace Coba.C20

/-! ## Specification -/

section Spec
variable {α : Type}

/-- `itertools.combinations_with_replacement(xs, k)`, written structurally: the combinations
that start with the first element (followed by a combination of one degree less over the same
elements), then those that do not use it. -/
def mcStep (prev : List α → List (List α)) : List α → List (List α)
  | [] => []
  | x :: xs => (prev (x :: xs)).map (x :: ·) ++ mcStep prev xs

def multichoose : Nat → List α → List (List α)
  | 0 => fun _ => [[]]
  | k + 1 => mcStep (multichoose k)

/-- product of a combination, nested to the right: `v₁·(v₂·(…·1))` -/
def monoProd (mul : α → α → α) (one : α) : List α → α
  | [] => one
  | v :: r => mul v (monoProd mul one r)

/-- all monomials of degree `k` over `xs`, each unordered combination once, in
`combinations_with_replacement` order -/
def monos (mul : α → α → α) (one : α) (k : Nat) (xs : List α) : List α :=
  (multichoose k xs).map (monoProd mul one)

/-- full outer product, left factor major -/
def outer (mul : α → α → α) (os vs : List α) : List α :=
  os.flatMap (fun o => vs.map (mul o))

/-- outer product of a non-empty list of factors (left to right) -/
def outerAll (mul : α → α → α) : List (List α) → List α
  | [] => []
  | v :: vs => vs.foldl (outer mul) v

/-- ordered de-duplication keeping first occurrences -/
def dedupAdd {β : Type} [DecidableEq β] (t : β) (acc : List β) : List β :=
  if t ∈ acc then acc else acc ++ [t]

def dedupFirst {β : Type} [DecidableEq β] (l : List β) : List β :=
  l.foldl (fun acc t => dedupAdd t acc) []

/-- a term such as `xxa` or `xax` read as namespace factors with multiplicity, namespaces in
order of first occurrence: `[(x,2),(a,1)]` -/
def factors (t : List Char) : List (Char × Nat) :=
  (dedupFirst t).map (fun c => (c, t.count c))

/-- the entries a term contributes, given the features of every namespace -/
def termS (mul : α → α → α) (one : α) (feats : Char → List α) (t : List Char) : List α :=
  outerAll mul ((factors t).map (fun cp => monos mul one cp.2 (feats cp.1)))

/-- all terms, in the order given -/
def termsS (mul : α → α → α) (one : α) (feats : Char → List α) (ts : List (List Char)) : List α :=
  ts.flatMap (termS mul one feats)

end Spec

/-! ## Python helpers -/

/-- `itertools.accumulate` (running sums) -/
def accFrom (acc : Nat) : List Nat → List Nat
  | [] => []
  | d :: ds => (acc + d) :: accFrom (acc + d) ds

def accumulate (l : List Nat) : List Nat := accFrom 0 l

/-- insertion-ordered dict: assigning an existing key keeps its position, replaces its value -/
def dictSet {κ β : Type} [DecidableEq κ] (k : κ) (v : β) : List (κ × β) → List (κ × β)
  | [] => [(k, v)]
  | (k', v') :: r => if k' = k then (k', v) :: r else (k', v') :: dictSet k v r

/-- `dict(pairs)` / a dict comprehension over `pairs` -/
def dictOf {κ β : Type} [DecidableEq κ] (l : List (κ × β)) : List (κ × β) :=
  l.foldl (fun d kv => dictSet kv.1 kv.2 d) []

def dictGet {κ β : Type} [DecidableEq κ] (k : κ) : List (κ × β) → Option β
  | [] => none
  | (k', v) :: r => if k' = k then some v else dictGet k r

inductive Err | keyError | indexError
  deriving DecidableEq, Repr

/-! ## `_pows` -/

section Pows
variable {α : Type}

/-- current code: `starts = list(accumulate(starts[:1]+starts[-1:]+starts[1:-1]))` -/
def stepOld (starts : List Nat) : List Nat :=
  accumulate (starts.take 1 ++ starts.drop (starts.length - 1) ++ (starts.drop 1).dropLast)

/-- proposed fix: `starts = list(accumulate([1]+[len(terms[d])-s+1 for s in starts[:-1]]))` -/
def stepNew (len : Nat) (starts : List Nat) : List Nat :=
  accumulate (1 :: starts.dropLast.map (fun s => len + 1 - s))

/-- `[v∘t for v,s in zip(values,starts) for t in terms[d][(s-1):]]` -/
def nextTerms (mul : α → α → α) (prev : List α) : List α → List Nat → List α
  | v :: vs, s :: ss => (prev.drop (s - 1)).map (mul v) ++ nextTerms mul prev vs ss
  | _, _ => []

/-- the loop `for d in range(degree)`; returns `terms[1:]` given `terms[0]` and the first `starts` -/
def powsAux (fixed : Bool) (mul : α → α → α) (values : List α) : Nat → List Nat → List α → List (List α)
  | 0, _, _ => []
  | d + 1, starts, last =>
    let nxt := nextTerms mul last values starts
    nxt :: powsAux fixed mul values d (if fixed then stepNew last.length starts else stepOld starts) nxt

/-- `_pows(values, degree)`: `[]` for no values, else `[terms[0], …, terms[degree]]` -/
def pows (fixed : Bool) (mul : α → α → α) (one : α) (values : List α) (degree : Nat) : List (List α) :=
  match values with
  | [] => []
  | _ :: _ => [one] :: powsAux fixed mul values degree (List.replicate values.length 1) [one]

end Pows

/-! ## `_cross` -/

section Cross
variable {α : Type}

/-- `values = [ns_pows[ns][p] for ns,p in cross_pow.items()]` -/
def pickPows (nsPows : Char → List (List α)) : List (Char × Nat) → Except Err (List (List α))
  | [] => .ok []
  | cp :: r =>
    match (nsPows cp.1)[cp.2]? with
    | none => .error .indexError
    | some v =>
      match pickPows nsPows r with
      | .ok vs => .ok (v :: vs)
      | .error e => .error e

/-- `_cross(ns_pows, cross_pow)`; `values[0]` of a term without namespaces raises IndexError -/
def cross (mul : α → α → α) (nsPows : Char → List (List α)) (cp : List (Char × Nat)) : Except Err (List α) :=
  if cp.any (fun kp => (nsPows kp.1).isEmpty) then .ok []
  else
    match pickPows nsPows cp with
    | .error e => .error e
    | .ok [] => .error .indexError
    | .ok (v :: vs) => .ok (vs.foldl (fun cr w => cr.flatMap (fun o => w.map (mul o))) v)

/-- `[cross(pows, cp) for cp in self._cross_pows.values()]`, chained -/
def crossAll (mul : α → α → α) (nsPows : Char → List (List α)) : List (List (Char × Nat)) → Except Err (List α)
  | [] => .ok []
  | cp :: r =>
    match cross mul nsPows cp with
    | .error e => .error e
    | .ok c =>
      match crossAll mul nsPows r with
      | .ok cs => .ok (c ++ cs)
      | .error e => .error e

end Cross

/-! ## `__init__` -/

/-- an entry of the `interactions` argument -/
inductive Inter
  | num (q : Rat)
  | term (t : List Char)
  deriving DecidableEq

structure Cfg where
  /-- `_pows` uses the corrected `starts` recurrence (fixes/C20-pows-starts.diff) -/
  fixPows : Bool
  /-- `_cross_pows` is keyed by the string terms, not by `interactions` (fixes/C20-crosspows-zip.diff) -/
  fixZip : Bool
  /-- a namespace named by a term but not passed to `encode` counts as empty (fixes/C20-absent-namespace.diff) -/
  fixAbsent : Bool
  deriving DecidableEq

def Cfg.fixed : Cfg := ⟨true, true, true⟩
def Cfg.current : Cfg := ⟨false, false, false⟩

def strTerms : List Inter → List (List Char)
  | [] => []
  | .term t :: r => t :: strTerms r
  | .num _ :: r => strTerms r

/-- `self._constant = sum(num_interactions)` -/
def constant : List Inter → Rat
  | [] => 0
  | .num q :: r => q + constant r
  | .term _ :: r => constant r

/-- `Counter(term)`: counts in first-occurrence order -/
def counterAdd (c : Char) : List (Char × Nat) → List (Char × Nat)
  | [] => [(c, 1)]
  | (k, n) :: r => if k = c then (k, n + 1) :: r else (k, n) :: counterAdd c r

def counter (t : List Char) : List (Char × Nat) :=
  t.foldl (fun acc c => counterAdd c acc) []

/-- `zip` truncating at the shorter list -/
def zipT {β γ : Type} : List β → List γ → List (β × γ)
  | b :: bs, c :: cs => (b, c) :: zipT bs cs
  | _, _ => []

/-- `self._cross_pows.values()`.  Current code:
`OrderedDict(zip(interactions, map(OrderedDict, map(Counter, str_interactions))))` — keyed by the
leading entries of `interactions` (numbers included), so equal keys overwrite each other. -/
def crossPows (cfg : Cfg) (is : List Inter) : List (List (Char × Nat)) :=
  let keys := if cfg.fixZip then (strTerms is).map Inter.term else is
  (dictOf (zipT keys ((strTerms is).map counter))).map (·.2)

/-- namespaces named by any string term: `set(''.join(str_interactions))` (as an ordered list) -/
def nsNames (is : List Inter) : List Char := dedupFirst (strTerms is).flatten

/-- `max(p.get(n,0) for p in self._cross_pows.values())` -/
def maxPow (cps : List (List (Char × Nat))) (c : Char) : Nat :=
  cps.foldl (fun m cp => max m ((dictGet c cp).getD 0)) 0

/-! ## `encode` -/

inductive Item
  | num (q : Rat)
  | str (s : String)
  deriving DecidableEq

inductive Key
  | str (s : String)
  | int (i : Int)
  deriving DecidableEq

/-- the value passed for one namespace -/
inductive NsVal
  | none
  | scalar (it : Item)
  | dense (its : List Item)
  | sparse (kvs : List (Key × Item))

def Item.isStr : Item → Bool
  | .str _ => true
  | .num _ => false

/-- `is_sparse_type(v) or is_sparse_sequ(v)` -/
def NsVal.isSparse : NsVal → Bool
  | .none => false
  | .scalar it => it.isStr
  | .dense its => its.any Item.isStr
  | .sparse _ => true

/-- f-string rendering of a key -/
def Key.fmt : Key → String
  | .str s => s
  | .int i => toString i

/-- `make_list` on the dense path (`None` was replaced by `[]`).  String items cannot occur on
this path (they make the call sparse); they are skipped to keep the function total. -/
def denseVals : NsVal → List Rat
  | .none => []
  | .scalar (.num q) => [q]
  | .scalar (.str _) => []
  | .dense its => its.filterMap (fun it => match it with | .num q => some q | .str _ => Option.none)
  | .sparse _ => []

/-- `make_dict` -/
def makeDict : NsVal → List (Key × Item)
  | .none => []
  | .scalar it => [(.str "0", it)]
  | .dense its => zipT ((List.range its.length).map (fun i => Key.str (toString i))) its
  | .sparse kvs => kvs

/-- one entry of `handle_str` -/
def handleEntry (kv : Key × Item) : Key × Rat :=
  match kv.2 with
  | .str s => (.str (kv.1.fmt ++ s), 1)
  | .num q => (kv.1, q)

/-- `handle_str(make_dict(V))` followed by `{f"{ns}{k}":v for k,v in V.items()}` -/
def sparseFeats (ns : Char) (v : NsVal) : List (String × Rat) :=
  dictOf ((dictOf ((makeDict v).map handleEntry)).map (fun kv => (String.singleton ns ++ kv.1.fmt, kv.2)))

inductive Out
  | dense (vs : List Rat)
  | sparse (kvs : List (String × Rat))
  deriving DecidableEq

/-- keyword arguments after `None ↦ []` (a no-op here: `denseVals`/`makeDict` treat both alike)
and, with `fixAbsent`, after the named-but-absent namespaces were added as empty -/
def kwargs (cfg : Cfg) (is : List Inter) (kw : List (Char × NsVal)) : List (Char × NsVal) :=
  if cfg.fixAbsent then
    kw ++ ((nsNames is).filter (fun c => (dictGet c kw).isNone)).map (fun c => (c, NsVal.dense []))
  else kw

def nsVal (kw : List (Char × NsVal)) (c : Char) : NsVal := (dictGet c kw).getD .none

def ratMul (a b : Rat) : Rat := a * b
def strMul (a b : String) : String := a ++ b

/-- `InteractionsEncoder(is).encode(**kw)` with the multiplication of feature values as a
parameter (`vmul` = exact arithmetic; a rounding multiplication for the float model) -/
def encodeG (vmul : Rat → Rat → Rat) (cfg : Cfg) (is : List Inter) (kw0 : List (Char × NsVal)) : Except Err Out :=
  let kw := kwargs cfg is kw0
  let cps := crossPows cfg is
  let const := constant is
  -- `ns_values[ns]` for every `ns in self._ns_max_pow` raises KeyError for an absent namespace
  if (nsNames is).any (fun c => (dictGet c kw).isNone) then .error .keyError
  else if kw.any (fun cv => cv.2.isSparse) then
    let feats := fun c => sparseFeats c (nsVal kw c)
    let keyPows := fun c => pows cfg.fixPows strMul "" ((feats c).map (·.1)) (maxPow cps c)
    let valPows := fun c => pows cfg.fixPows vmul 1 ((feats c).map (·.2)) (maxPow cps c)
    match crossAll strMul keyPows cps, crossAll vmul valPows cps with
    | .ok ks, .ok vs =>
      let enc := dictOf (zipT ks vs)
      .ok (.sparse (if const ≠ 0 then dictSet "const" const enc else enc))
    | .error e, _ => .error e
    | _, .error e => .error e
  else
    let valPows := fun c => pows cfg.fixPows vmul 1 (denseVals (nsVal kw c)) (maxPow cps c)
    match crossAll vmul valPows cps with
    | .ok vs => .ok (.dense (if const ≠ 0 then const :: vs else vs))
    | .error e => .error e

/-- `InteractionsEncoder(is).encode(**kw)` over exact arithmetic -/
def encode (cfg : Cfg) (is : List Inter) (kw0 : List (Char × NsVal)) : Except Err Out :=
  encodeG ratMul cfg is kw0

/-! ## Specification of `encode` -/

/-- the features of a namespace on dense inputs: a scalar is a vector of length one;
`None`, `[]` and an absent namespace are vectors of length zero -/
def featsDense (kw : List (Char × NsVal)) (c : Char) : List Rat := denseVals (nsVal kw c)

/-- the named features of a namespace on sparse / string-valued inputs -/
def featsSparse (kw : List (Char × NsVal)) (c : Char) : List (String × Rat) := sparseFeats c (nsVal kw c)

def pairMulG (vmul : Rat → Rat → Rat) (a b : String × Rat) : String × Rat := (a.1 ++ b.1, vmul a.2 b.2)
def pairMul (a b : String × Rat) : String × Rat := (a.1 ++ b.1, a.2 * b.2)
def pairOne : String × Rat := ("", 1)

def isSparseCall (kw : List (Char × NsVal)) : Bool := kw.any (fun cv => cv.2.isSparse)

/-- the specification with the value multiplication as a parameter -/
def encodeSG (vmul : Rat → Rat → Rat) (is : List Inter) (kw : List (Char × NsVal)) : Out :=
  let ts := dedupFirst (strTerms is)
  let const := constant is
  if isSparseCall kw then
    let enc := dictOf (termsS (pairMulG vmul) pairOne (featsSparse kw) ts)
    .sparse (if const ≠ 0 then dictSet "const" const enc else enc)
  else
    let vs := termsS vmul 1 (featsDense kw) ts
    .dense (if const ≠ 0 then const :: vs else vs)

/-- what the property demands of `encode`: the constant first (when non-zero), then for every
distinct term in the order given the outer product of the monomials of its namespaces; as a
vector for dense inputs, as a mapping from the concatenated feature names to the products for
sparse inputs -/
def encodeS (is : List Inter) (kw : List (Char × NsVal)) : Out :=
  let ts := dedupFirst (strTerms is)
  let const := constant is
  if isSparseCall kw then
    let enc := dictOf (termsS pairMul pairOne (featsSparse kw) ts)
    .sparse (if const ≠ 0 then dictSet "const" const enc else enc)
  else
    let vs := termsS ratMul 1 (featsDense kw) ts
    .dense (if const ≠ 0 then const :: vs else vs)

/-- number of entries the dense encoding must have: one for a non-zero constant plus, per distinct
term, the product over its namespaces of `C(n + p - 1, p)` (`n` features, power `p`) -/
def chooseNat : Nat → Nat → Nat
  | _, 0 => 1
  | 0, _ + 1 => 0
  | n + 1, k + 1 => chooseNat n k + chooseNat n (k + 1)

def termLen (feats : Char → Nat) (t : List Char) : Nat :=
  ((factors t).map (fun cp => chooseNat (feats cp.1 + cp.2 - 1) cp.2)).foldl (· * ·) 1

def encodeLen (is : List Inter) (kw : List (Char × NsVal)) : Nat :=
  (if constant is ≠ 0 then 1 else 0)
    + ((dedupFirst (strTerms is)).map (termLen (fun c => (featsDense kw c).length))).foldl (· + ·) 0

/-- a history of `encode` calls on one encoder object: the object keeps nothing between calls
(`self.n`, `self.times` are counters that no result depends on), so the results are the
call-by-call results -/
def encodeHistory (cfg : Cfg) (is : List Inter) (calls : List (List (Char × NsVal))) : List (Except Err Out) :=
  calls.map (encode cfg is)

/-! ## Callers (`coba/learners/linucb.py`, `lints.py`, `coba/environments/synthetics.py`) -/

/-- Python truthiness of an entry of a feature list (`filter(None, …)`) -/
def Inter.truthy : Inter → Bool
  | .num q => decide (q ≠ 0)
  | .term t => !t.isEmpty

/-- `f.replace(c,'') if isinstance(f,str) else f` -/
def Inter.dropNs (c : Char) : Inter → Inter
  | .term t => .term (t.filter (· != c))
  | .num q => .num q

/-- the term list LinUCB / LinTS hand to `InteractionsEncoder`: the `features` argument itself, or — when
the first context is empty — `list(set(filter(None,[f.replace('x','') …])))` (a set: order arbitrary in
Python, first-occurrence order here; compared as a set) -/
def learnerTerms (hasContext : Bool) (fs : List Inter) : List Inter :=
  if hasContext then fs else dedupFirst ((fs.map (Inter.dropNs 'x')).filter Inter.truthy)

/-- the term list `LinearSyntheticSimulation.read` hands to `InteractionsEncoder`:
`sorted(set(filter(None,[f.replace(replace,'') …])), key=index)` -/
def syntheticTerms (nCtx nAct : Nat) (fs : List (List Char)) : List Inter :=
  let fs1 := if nCtx = 0 then fs.map (·.filter (· != 'x'))
             else if nAct = 0 then fs.map (·.filter (· != 'a')) else fs
  (dedupFirst (fs1.filter (fun t => !t.isEmpty))).map Inter.term

/-- what `encode_eq_spec` needs of a term list (every term names a namespace), plus: only the
namespaces the callers pass (`x`, `a`) are named -/
def wellformedTerms (is : List Inter) : Bool :=
  (strTerms is).all (fun t => !t.isEmpty && t.all (fun c => c == 'x' || c == 'a'))

/-! ## Argument shapes of the entry points (`features=` / `reward_features=`) -/

/-- what a caller may pass as the term argument -/
inductive Shape
  | str (t : List Char)
  | list (ts : List Inter)
  | tuple (ts : List Inter)
  deriving DecidableEq

/-- how an entry point treats the argument before handing it on (extracted from the source) -/
inductive Norm
  | asIs      -- passed on unchanged
  | wrapStr   -- `if isinstance(p,str): p = [p]`
  | listOf    -- `list(p)`
  | tupleOf   -- `tuple(p)`
  deriving DecidableEq

/-- iterating a Python str yields its characters -/
def charsOf (t : List Char) : List Inter := t.map (fun c => Inter.term [c])

def Norm.step : Norm → Shape → Shape
  | .asIs, s => s
  | .wrapStr, .str t => .list [.term t]
  | .wrapStr, s => s
  | .listOf, .str t => .list (charsOf t)
  | .listOf, .list ts => .list ts
  | .listOf, .tuple ts => .list ts
  | .tupleOf, .str t => .tuple (charsOf t)
  | .tupleOf, .list ts => .tuple ts
  | .tupleOf, .tuple ts => .tuple ts

/-- what `InteractionsEncoder(p)` sees when it iterates its argument -/
def Shape.iterate : Shape → List Inter
  | .str t => charsOf t
  | .list ts => ts
  | .tuple ts => ts

/-- the term list the caller means: a bare str is ONE term -/
def Shape.meaning : Shape → List Inter
  | .str t => [.term t]
  | .list ts => ts
  | .tuple ts => ts

/-- the entry points' treatments in call order, then the encoder's iteration -/
def normalise (ns : List Norm) (s : Shape) : List Inter :=
  (ns.foldl (fun s n => n.step s) s).iterate

/-! ## LinUCB linear algebra over ℚ (coba/learners/linucb.py `_pmf`, `learn`) -/

/-- dot product (`u @ v`) -/
def dotQ (u v : List Rat) : Rat := (List.zipWith (· * ·) u v).sum
/-- matrix (rows) times vector (`M @ f`) -/
def matVecQ (M : List (List Rat)) (f : List Rat) : List Rat := M.map (fun row => dotQ row f)
/-- `np.identity(d)` -/
def identityQ (d : Nat) : List (List Rat) :=
  (List.range d).map (fun i => (List.range d).map (fun j => if i = j then 1 else 0))

/-- the learner's state: `_theta`, `_A_inv` -/
structure LinState where
  theta : List Rat
  ainv : List (List Rat)

/-- `_initialize`: θ = zeros(d), A⁻¹ = identity(d) -/
def LinState.init (d : Nat) : LinState := ⟨List.replicate d 0, identityQ d⟩

/-- learn: r = θ·f, w = A⁻¹f, v = w·f, A⁻¹ := A⁻¹ − wwᵀ/(1+v), θ := θ + (reward−r)/(1+v)·w
(linucb.py `learn`) -/
def LinState.learn (s : LinState) (f : List Rat) (reward : Rat) : LinState :=
  let r := dotQ s.theta f
  let w := matVecQ s.ainv f
  let v := dotQ w f
  ⟨List.zipWith (fun t wi => t + (reward - r) / (1 + v) * wi) s.theta w,
   List.zipWith (fun row wi => List.zipWith (fun a wj => a - wi * wj / (1 + v)) row w) s.ainv w⟩

/-- `_pmf`: per action feature vector f: (θ·f , fᵀA⁻¹f) -/
def LinState.score (s : LinState) (f : List Rat) : Rat × Rat :=
  (dotQ s.theta f, dotQ (matVecQ s.ainv f) f)

/-- one call on the learner: `learn` with the chosen action's features, or `_pmf` with every action's -/
inductive LinEvent
  | learn (f : List Rat) (reward : Rat)
  | predict (fs : List (List Rat))

/-- the scores of every predict event in order, and the final state -/
def linRun (s : LinState) : List LinEvent → List (List (Rat × Rat)) × LinState
  | [] => ([], s)
  | .learn f r :: es => linRun (s.learn f r) es
  | .predict fs :: es => (fs.map s.score :: (linRun s es).1, (linRun s es).2)

/-- lay a vector out in another order: position k holds the old position `p[k]` -/
def permV (p : List Nat) (v : List Rat) : List Rat := p.map (fun i => v.getD i 0)
/-- the same re-ordering of rows and columns -/
def permM (p : List Nat) (M : List (List Rat)) : List (List Rat) :=
  p.map (fun i => permV p (M.getD i []))
def LinState.perm (p : List Nat) (s : LinState) : LinState := ⟨permV p s.theta, permM p s.ainv⟩
def LinEvent.perm (p : List Nat) : LinEvent → LinEvent
  | .learn f r => .learn (permV p f) r
  | .predict fs => .predict (fs.map (permV p))

/-- dimensions agree: θ has n entries, A⁻¹ is n×n -/
def LinState.WF (n : Nat) (s : LinState) : Prop :=
  s.theta.length = n ∧ s.ainv.length = n ∧ ∀ row ∈ s.ainv, row.length = n
/-- every feature vector of the event has n entries -/
def LinEvent.WF (n : Nat) : LinEvent → Prop
  | .learn f _ => f.length = n
  | .predict fs => ∀ f ∈ fs, f.length = n

/-! ## Phase 4: an explicit model of IEEE double rounding (round-to-nearest-even to 53 significant bits over ℚ,
exponent range unbounded). `ExactOn fmul53` is PROVED in Lemmas (`exactOn_fmul53`) and the whole function is compared
with CPython's double multiplication step by step through the driver op "fl53". -/

/-- `2^e` for an integer exponent -/
def pow2 (e : Int) : Rat := if 0 ≤ e then (2 : Rat) ^ e.toNat else 1 / (2 : Rat) ^ (-e).toNat

/-- nearest integer to `s ≥ 0`, ties to the even neighbour (`s = num/den` in lowest terms: an integer has
`den = 1`, remainder 0 and is returned as it is) -/
def roundHalfEven (s : Rat) : Nat :=
  let n := s.num.natAbs
  let quo := n / s.den
  let rem := n % s.den
  if 2 * rem < s.den then quo
  else if s.den < 2 * rem then quo + 1
  else if quo % 2 = 0 then quo else quo + 1

/-- the exponent `e` with `2^(prec-1) ≤ a / 2^e < 2^prec` for `a > 0`: first guess from the bit lengths of numerator
and denominator (it is right or one too small), corrected by one comparison -/
def expo (prec : Nat) (a : Rat) : Int :=
  let e0 : Int := (a.num.natAbs.log2 : Int) - (a.den.log2 : Int) - (prec : Int)
  if a * pow2 (-e0) < (2 : Rat) ^ prec then e0 else e0 + 1

/-- round-to-nearest, ties-to-even, to `prec` significant bits; the exponent range is unbounded (no under/overflow) -/
def roundSig (prec : Nat) (q : Rat) : Rat :=
  if q = 0 then 0 else
  let a : Rat := if q < 0 then -q else q
  let e := expo prec a
  let r : Rat := (roundHalfEven (a * pow2 (-e)) : Rat) * pow2 e
  if q < 0 then -r else r

/-- rounding to IEEE double precision (53 significant bits) -/
def fl53 (q : Rat) : Rat := roundSig 53 q

/-- IEEE double multiplication away from under/overflow: the exact product, rounded -/
def fmul53 (a b : Rat) : Rat := fl53 (a * b)

/-! ## Phase 4: the named monomials of a sparse call and when two of them collide -/

/-- the named monomials of a sparse call, in order, BEFORE they are put into the mapping: for every distinct
term the (concatenated name, product) pairs of its monomials, then the constant entry when non-zero
(`encodeS` on the sparse path is `dictOf` of exactly this list: `encode_sparse_eq_dictOf_monos`) -/
def sparseMonos (is : List Inter) (kw : List (Char × NsVal)) : List (String × Rat) :=
  termsS pairMul pairOne (featsSparse kw) (dedupFirst (strTerms is))
    ++ (if constant is ≠ 0 then [("const", constant is)] else [])

/-- two different positions of a list carry the same element -/
def hasDup {β : Type} [DecidableEq β] : List β → Bool
  | [] => false
  | x :: r => r.contains x || hasDup r

/-- two different monomials of the call (or a monomial and the constant) carry the same name -/
def collides (is : List Inter) (kw : List (Char × NsVal)) : Bool :=
  hasDup ((sparseMonos is kw).map (·.1))

/-! ## Phase 4: translator target for the `learn` bodies of linucb.py / lints.py -/

/-! translator target: the body of `learn` (linucb.py / lints.py) as a tiny straight-line program over numpy-like values -/
inductive LVal
  | s (q : Rat) | v (xs : List Rat) | m (rows : List (List Rat)) | bad

inductive LExp
  | theta | ainv | feat | reward | var (i : Nat) | one
  | matmul (a b : LExp) | outer (a b : LExp)
  | add (a b : LExp) | sub (a b : LExp) | mul (a b : LExp) | div (a b : LExp)

inductive LStmt
  | assign (i : Nat) (e : LExp) | setTheta (e : LExp) | setAinv (e : LExp)

/-- `@` on 1-D / 2-D arrays as used in `learn` -/
def LVal.matmul : LVal → LVal → LVal
  | .v a, .v b => .s (dotQ a b)
  | .m a, .v b => .v (matVecQ a b)
  | _, _ => .bad

/-- `np.outer` -/
def LVal.outer : LVal → LVal → LVal
  | .v a, .v b => .m (a.map (fun x => b.map (fun y => x * y)))
  | _, _ => .bad

/-- elementwise arithmetic with scalar broadcasting -/
def LVal.arith (op : Rat → Rat → Rat) : LVal → LVal → LVal
  | .s a, .s b => .s (op a b)
  | .v a, .v b => .v (List.zipWith op a b)
  | .m a, .m b => .m (List.zipWith (List.zipWith op) a b)
  | .s a, .v b => .v (b.map (fun x => op a x))
  | .v a, .s b => .v (a.map (fun x => op x b))
  | .m a, .s b => .m (a.map (fun row => row.map (fun x => op x b)))
  | .s a, .m b => .m (b.map (fun row => row.map (fun x => op a x)))
  | _, _ => .bad

def LExp.eval (st : LinState) (f : List Rat) (r : Rat) (env : List LVal) : LExp → LVal
  | .theta => .v st.theta
  | .ainv => .m st.ainv
  | .feat => .v f
  | .reward => .s r
  | .var i => env.getD i .bad
  | .one => .s 1
  | .matmul a b => (a.eval st f r env).matmul (b.eval st f r env)
  | .outer a b => (a.eval st f r env).outer (b.eval st f r env)
  | .add a b => LVal.arith (· + ·) (a.eval st f r env) (b.eval st f r env)
  | .sub a b => LVal.arith (· - ·) (a.eval st f r env) (b.eval st f r env)
  | .mul a b => LVal.arith (· * ·) (a.eval st f r env) (b.eval st f r env)
  | .div a b => LVal.arith (· / ·) (a.eval st f r env) (b.eval st f r env)

/-- run the statements in order; local `i` must be the next free slot; `self._theta` / `self._A_inv` reads see earlier writes -/
def runLearn : List LStmt → LinState → List Rat → Rat → List LVal → Option LinState
  | [], st, _, _, _ => some st
  | .assign i e :: ps, st, f, r, env =>
      if i = env.length then runLearn ps st f r (env ++ [e.eval st f r env]) else none
  | .setTheta e :: ps, st, f, r, env =>
      match e.eval st f r env with
      | .v t => runLearn ps ⟨t, st.ainv⟩ f r env
      | _ => none
  | .setAinv e :: ps, st, f, r, env =>
      match e.eval st f r env with
      | .m a => runLearn ps ⟨st.theta, a⟩ f r env
      | _ => none

/-- what the straight-line program of `learn` evaluates to, literally (numpy operation by numpy operation) -/
def LinState.learnAlt (s : LinState) (f : List Rat) (reward : Rat) : LinState :=
  let r := dotQ s.theta f
  let w := matVecQ s.ainv f
  let v := dotQ w f
  ⟨List.zipWith (· + ·) s.theta (w.map (fun x => (reward - r) / (1 + v) * x)),
   List.zipWith (List.zipWith (· - ·)) s.ainv
     ((w.map (fun x => w.map (fun y => x * y))).map (fun row => row.map (fun x => x / (1 + v))))⟩

/-- a history run with a `learn` PROGRAM (the translator's reading of the source) in place of `LinState.learn` -/
def linRunProg (prog : List LStmt) (s : LinState) : List LinEvent → Option LinState
  | [] => some s
  | .learn f r :: es =>
      match runLearn prog s f r [] with
      | some s' => linRunProg prog s' es
      | none => none
  | .predict _ :: es => linRunProg prog s es

/-! ## Phase 5: translator target for `_pmf` (linucb.py; lints.py with `v = 0`): the assignments after the feature
matrix is built as a straight-line program over numpy-like values, then the selection
`np.where(vals == np.amax(vals))[0]` / `[int(ind in max_indexes)/len(max_indexes) for ind in range(len(actions))]` -/

/-- the largest entry (`np.amax`); 0 for the empty list (numpy raises there; `_pmf` is never called without actions) -/
def maxQ : List Rat → Rat
  | [] => 0
  | x :: r => r.foldl max x

/-- `_pmf`'s last two lines, literally: `max_indexes = np.where(vals == top)[0]`, then
`[int(ind in max_indexes)/len(max_indexes) for ind in range(len(actions))]` -/
def selectEq (vals : List Rat) (top : Rat) : List Rat :=
  vals.map (fun v => if v = top then 1 / ((vals.countP (fun w => w = top) : Nat) : Rat) else 0)

/-- … with `top = np.amax(vals)`: probability `1/#maximisers` on every maximiser of `vals`, 0 elsewhere -/
def pmfOfValues (vals : List Rat) : List Rat := selectEq vals (maxQ vals)

/-- `_pmf` of LinUCB: action value = θ·f + α·√(fᵀA⁻¹f) (the square root is a parameter: ℚ has none; the harness
supplies CPython's `math.sqrt` on the bounds that occur), then the uniform distribution on the maximisers -/
def LinState.pmf (sq : Rat → Rat) (alpha : Rat) (s : LinState) (fs : List (List Rat)) : List Rat :=
  pmfOfValues (fs.map (fun f => (s.score f).1 + alpha * sq (s.score f).2))

/-- `_pmf` of LinTS with `v = 0`, literally: `np.where(est.round(5) == np.amax(est).round(5))`, est = μ̂·f per action
(the rounding is a parameter like `sq`; for a monotone rounding this is `pmfOfValues` of the rounded estimates:
`pmfTS_eq_pmfOfValues`) -/
def LinState.pmfTS (rnd : Rat → Rat) (s : LinState) (fs : List (List Rat)) : List Rat :=
  selectEq (fs.map (fun f => rnd (s.score f).1)) (rnd (maxQ (fs.map (fun f => (s.score f).1))))

inductive PVal
  | s (q : Rat) | v (xs : List Rat) | m (rows : List (List Rat)) | cols (fs : List (List Rat)) | bad

/-- `feats` is the d×K matrix whose columns are the actions' encodings (`np.array([...]).T` in linucb.py,
`features.T` in lints.py); `fn1` is the unary numpy function of the program (`np.sqrt` / `.round(5)`) -/
inductive PExp
  | theta | ainv | feats | alpha | var (i : Nat)
  | matmul (a b : PExp) | einsumCols (a b : PExp) | fn1 (a : PExp) | amax (a : PExp)
  | add (a b : PExp) | mul (a b : PExp)

/-- `@`: vector @ (d×K) = the K dot products; (d×d) @ (d×K) = the K matrix-vector products -/
def PVal.matmul : PVal → PVal → PVal
  | .v a, .cols fs => .v (fs.map (dotQ a))
  | .m a, .cols fs => .cols (fs.map (matVecQ a))
  | _, _ => .bad

/-- `np.einsum('ij,ij->j', X, Y)`: column by column dot products -/
def PVal.einsumCols : PVal → PVal → PVal
  | .cols x, .cols y => .v (List.zipWith dotQ x y)
  | _, _ => .bad

def PVal.fn1 (g : Rat → Rat) : PVal → PVal
  | .s a => .s (g a)
  | .v a => .v (a.map g)
  | _ => .bad

def PVal.arith (op : Rat → Rat → Rat) : PVal → PVal → PVal
  | .s a, .s b => .s (op a b)
  | .v a, .v b => .v (List.zipWith op a b)
  | .s a, .v b => .v (b.map (fun x => op a x))
  | .v a, .s b => .v (a.map (fun x => op x b))
  | _, _ => .bad

/-- `np.amax` of a vector -/
def PVal.amax : PVal → PVal
  | .v a => .s (maxQ a)
  | _ => .bad

def PExp.eval (g : Rat → Rat) (st : LinState) (fs : List (List Rat)) (alpha : Rat) (env : List PVal) : PExp → PVal
  | .theta => .v st.theta
  | .ainv => .m st.ainv
  | .feats => .cols fs
  | .alpha => .s alpha
  | .var i => env.getD i .bad
  | .matmul a b => (a.eval g st fs alpha env).matmul (b.eval g st fs alpha env)
  | .einsumCols a b => (a.eval g st fs alpha env).einsumCols (b.eval g st fs alpha env)
  | .fn1 a => (a.eval g st fs alpha env).fn1 g
  | .amax a => (a.eval g st fs alpha env).amax
  | .add a b => PVal.arith (· + ·) (a.eval g st fs alpha env) (b.eval g st fs alpha env)
  | .mul a b => PVal.arith (· * ·) (a.eval g st fs alpha env) (b.eval g st fs alpha env)

/-- the locals in order of assignment -/
def runAssigns (g : Rat → Rat) (st : LinState) (fs : List (List Rat)) (alpha : Rat) : List PExp → List PVal → List PVal
  | [], env => env
  | e :: ps, env => runAssigns g st fs alpha ps (env ++ [e.eval g st fs alpha env])

/-- the whole body: the assignments, then the selection `np.where(lhs == top)[0]` and the returned comprehension
(LinUCB: `lhs` = the local holding the action values, `top` = `np.amax` of it; LinTS: `lhs` = estimates`.round(5)`,
`top` = `np.amax(estimates).round(5)`) -/
def runPredict (g : Rat → Rat) (prog : List PExp) (lhs top : PExp) (st : LinState) (fs : List (List Rat)) (alpha : Rat) :
    Option (List Rat) :=
  let env := runAssigns g st fs alpha prog []
  match lhs.eval g st fs alpha env, top.eval g st fs alpha env with
  | .v vals, .s t => some (selectEq vals t)
  | _, _ => none

/-- the prediction of every `predict` event of a history, `run` being how one prediction is computed from the state -/
def linRunPredict (run : LinState → List (List Rat) → Option (List Rat)) (s : LinState) : List LinEvent → List (Option (List Rat))
  | [] => []
  | .learn f r :: es => linRunPredict run (s.learn f r) es
  | .predict fs :: es => run s fs :: linRunPredict run s es

/-- a finite table as a function (the harness sends CPython's `math.sqrt` / `round(·,5)` on the arguments that occur) -/
def tableFn (tab : List (Rat × Rat)) (x : Rat) : Rat :=
  match tab.find? (fun p => p.1 = x) with
  | some p => p.2
  | none => 0

/-! ## Phase 5: the equal-length no-collision condition for a whole call (decidable on the inputs) -/

/-- the letters of a term regrouped by namespace in order of first occurrence (`xax ↦ xxa`): two terms with the same
regrouping have the same factors, hence the same monomials -/
def canonTerm (t : List Char) : List Char := (factors t).flatMap (fun kp => List.replicate kp.2 kp.1)

/-- the length of the first feature name of the first namespace (named by a term) that has one; 0 when there is none -/
def callL (is : List Inter) (kw : List (Char × NsVal)) : Nat :=
  match ((strTerms is).flatten.flatMap (fun c => (featsSparse kw c).map (fun p => p.1.length))) with
  | [] => 0
  | l :: _ => l

/-- checkable sufficient condition for a collision-free sparse call: every feature name of every namespace named by a
term has length `L ≥ 1`, no two terms are the same up to regrouping of their letters, and the constant entry (`const`,
5 characters) is absent or `L ∤ 5` -/
def equalLenOK (L : Nat) (is : List Inter) (kw : List (Char × NsVal)) : Bool :=
  decide (1 ≤ L)
  && (strTerms is).all (fun t => t.all (fun c => (featsSparse kw c).all (fun p => p.1.length == L)))
  && !hasDup ((dedupFirst (strTerms is)).map canonTerm)
  && (decide (constant is = 0) || decide (5 % L ≠ 0))

/-! ## Phase 6: ownership histories — what the CALLER does with the objects it shares with one encoder

`__init__` builds its own lists from the term list it is given (`str_interactions`, `num_interactions` are
comprehensions; `_cross_pows`, `_ns_max_pow`, `_constant` are computed from them), and every `encode` call returns a
newly built list / dict (`sum(val_crosses,[])`, `[const] + …`, `dict(zip(…))`). So nothing the caller does to the term
list it passed, to the arguments it passed, or to a result it was handed can reach the encoder. The model makes the
sharing explicit: `OwnCfg.copyTerms = false` is an encoder that KEEPS the caller's list (reads it at call time). -/

/-- one step of the caller around one encoder object -/
inductive OwnOp where
  /-- `enc.encode(**kw)`; the result is handed to the caller (a new slot of `OwnState.results`) -/
  | encode (kw : List (Char × NsVal))
  /-- the caller overwrites the result it was handed by call number `slot` -/
  | editResult (slot : Nat) (o : Out)
  /-- the caller changes, in place, the list it passed to the constructor -/
  | editTerms (is : List Inter)

structure OwnCfg where
  /-- the constructor builds its own lists (the code does) -/
  copyTerms : Bool

structure OwnState where
  /-- the encoder's own term lists, built by the constructor -/
  encTerms : List Inter
  /-- the caller's list object (the one it passed to the constructor) -/
  callerTerms : List Inter
  /-- the results the caller holds, in the order of the calls -/
  results : List (Except Err Out)

def OwnState.init (is : List Inter) : OwnState := ⟨is, is, []⟩

/-- the terms an `encode` call reads -/
def OwnState.termsRead (oc : OwnCfg) (s : OwnState) : List Inter :=
  if oc.copyTerms then s.encTerms else s.callerTerms

/-- one step: the new state and, for an `encode` step, the value returned -/
def OwnState.step (oc : OwnCfg) (cfg : Cfg) (s : OwnState) : OwnOp → OwnState × Option (Except Err Out)
  | .encode kw =>
    let r := encode cfg (s.termsRead oc) kw
    ({ s with results := s.results ++ [r] }, some r)
  | .editResult k o => ({ s with results := s.results.set k (.ok o) }, none)
  | .editTerms is => ({ s with callerTerms := is }, none)

/-- a whole history from a given state: the values RETURNED by the `encode` steps, in order, and the final state -/
def ownRunFrom (oc : OwnCfg) (cfg : Cfg) : OwnState → List OwnOp → List (Except Err Out) × OwnState
  | s, [] => ([], s)
  | s, op :: ops =>
    let (s', r) := s.step oc cfg op
    let (rs, sf) := ownRunFrom oc cfg s' ops
    (match r with | some x => x :: rs | none => rs, sf)

def ownRun (oc : OwnCfg) (cfg : Cfg) (is : List Inter) (ops : List OwnOp) : List (Except Err Out) × OwnState :=
  ownRunFrom oc cfg (OwnState.init is) ops

/-- the keyword arguments of the `encode` steps of a history, in order -/
def ownCalls : List OwnOp → List (List (Char × NsVal))
  | [] => []
  | .encode kw :: ops => kw :: ownCalls ops
  | _ :: ops => ownCalls ops

/-- the code as it is: the constructor copies -/
def OwnCfg.code : OwnCfg := ⟨true⟩

end Coba.C20
