/-
C19 — Shared caches never expose partial entries and always release their locks.

Executable model (import-free) of `coba.context.cachers.ConcurrentCacher` over a
`MemoryCacher`-like inner cache, as a transition system whose atomic steps are exactly the
`with self._lock:` blocks and the unlocked inner-cache / with-body steps between them; plus a
small file-system-as-map model of `DiskCacher.get_set`.

Shared state   : `arr`   = `_array`  (index ↦ -1 writer / 0 free / n readers)
                 `cache` = inner cacher (key ↦ value)
Per caller     : program counter inside the current operation, remaining program (segments: an
                 exception unwinds every open with-block and abandons the rest of the segment,
                 like a `try/except` around each top-level statement), the stack of entered
                 with-blocks, and `book` = `_locks[(thread,key)]`.
-/
namespace Coba.C19

def upd {α} (f : Nat → α) (k : Nat) (v : α) : Nat → α := fun x => if x = k then v else f x

/-- outcome of the getter passed to `get_set` if it gets called -/
inductive Getter where
  | ok (v : Nat)
  | fail
  deriving DecidableEq, Repr

inductive Instr where
  | getSet (k : Nat) (g : Getter)   -- `with cacher.get_set(k, getter) as v:`  (opens a with-block)
  | exit                            -- leave the innermost with-block normally
  | raise                           -- the with-body raises
  | rmv (k : Nat) (f : Bool) (o : Bool)  -- `cacher.rmv(k)`; `f`: the inner cacher's rmv raises if it gets called;
                                    -- `o`: the UNLOCKED `key in self` answers True although the entry is not (completely) cached —
                                    -- a DiskCacher writes in place, so a half-written file of another process is visible to `exists()`
  deriving DecidableEq, Repr

inductive Pc where
  | idle                            -- between instructions
  | gsAcqR (k : Nat) (g : Getter)   -- next: lock block of `_acquire_read_lock`
  | gsChk1 (k : Nat) (g : Getter)   -- next: `key in self._cache` (read lock held)
  | gsGet1 (k : Nat)                -- next: `self._cache.get_set(key,None)` (hit, read lock held)
  | gsRelR (k : Nat) (g : Getter)   -- next: `_release_read_lock` (miss)
  | gsAcqW (k : Nat) (g : Getter)   -- next: lock block of `_acquire_write_lock`
  | gsChk2 (k : Nat) (g : Getter)   -- next: `key in self` (write lock held)
  | gsSwA (k : Nat)                 -- next: `_switch_write_to_read_lock` (someone else populated)
  | gsGet2 (k : Nat)                -- next: `self._cache.get_set(key,None)` after the switch
  | gsPop (k : Nat) (g : Getter)    -- next: `self._cache.get_set(key,getter)` starts (write lock held); a DiskCacher creates the file here
  | gsPopW (k : Nat) (g : Getter)   -- the entry is being written (file created, not yet closed); next: getter result stored / getter raises
  | gsSwB (k : Nat) (v : Nat)       -- next: `_switch_write_to_read_lock` (after populating)
  | gsEnter (k : Nat) (v : Nat)     -- next: the caller enters the with-body and receives `v`
  | gsHRelR (k : Nat)               -- exception handler of get_set: `_release_read_lock`
  | gsHRelW (k : Nat)               -- exception handler of get_set: `_release_write_lock`
  | exRel                           -- next: `_release_read_lock` of `_release_read_on_exit` (normal exit)
  | rmChk (k : Nat) (f : Bool) (o : Bool)  -- next: `key in self` of rmv (no lock held)
  | rmAcqW (k : Nat) (f : Bool)     -- next: lock block of `_acquire_write_lock` in rmv
  | rmRemove (k : Nat) (f : Bool)   -- next: `self._cache.rmv(key)` (raises when `f`)
  | rmRelW (k : Nat)                -- next: `_release_write_lock` in rmv
  | rmHRelW (k : Nat)               -- `except:` of rmv with lock == 'write': `_release_write_lock`, then re-raise
  | unwind                          -- an exception propagates: release the innermost with-block
  deriving DecidableEq, Repr

/-- what one atomic step did (the observable used by the correspondence check) -/
inductive Ev where
  | begin | nextSeg | skip
  | spin                              -- a lock block whose guard was false (then `time.sleep`)
  | acqR (k : Nat) | relR (k : Nat) | acqW (k : Nat) | relW (k : Nat) | sw (k : Nat)
  | contains (k : Nat) (b : Bool)
  | cget (k : Nat) (v : Nat)
  | ccreate (k : Nat)                 -- the inner cacher starts populating (DiskCacher: the file now exists, incomplete)
  | cpop (k : Nat) (v : Nat) | cpopFail (k : Nat)
  | crmv (k : Nat) (b : Bool)
  | crmvFail (k : Nat)                -- the inner cacher's rmv raised (entry untouched)
  | enter (k : Nat) (v : Nat)
  | raiseBody
  | refuse (k : Nat)                  -- repaired code only: a nested write-lock request on a busy slot raises instead of waiting
  deriving DecidableEq, Repr

structure Caller where
  pc : Pc
  cur : List Instr
  rest : List (List Instr)
  stack : List Nat
  book : Nat → Int
  /-- switch for the proposed repair `fixes/C19-nested-write-wait-raises.diff`: when set, `_acquire_write_lock` raises the
  documented CobaException instead of waiting if the calling thread holds a read lock (is inside a with-block) -/
  tn : Bool

structure St where
  arr : Nat → Int
  cache : Nat → Option Nat
  cs : List Caller

def Caller.terminal (c : Caller) : Bool :=
  (c.pc == Pc.idle) && c.cur.isEmpty && c.rest.isEmpty && c.stack.isEmpty

/-- an exception leaves the current operation: abandon the segment; propagate through the open
with-blocks if there are any -/
def toUnwind (c : Caller) : Caller :=
  { c with cur := [], pc := if c.stack.isEmpty then Pc.idle else Pc.unwind }

/-- `except Exception:` of get_set: release read if `_has_read_lock`, then write if `_has_write_lock` -/
def afterHRelR (c : Caller) (k : Nat) : Caller :=
  if c.book k = -1 then { c with pc := Pc.gsHRelW k } else toUnwind c

def toHandler (c : Caller) (k : Nat) : Caller :=
  if c.book k > 0 then { c with pc := Pc.gsHRelR k } else afterHRelR c k

abbrev Res := Ev × (Nat → Int) × (Nat → Option Nat) × Caller

/-- one atomic step of one caller -/
def stepC (idx : Nat → Nat) (arr : Nat → Int) (cache : Nat → Option Nat) (c : Caller) : Option Res :=
  match c.pc with
  | .idle =>
    match c.cur with
    | .getSet k g :: r => some (.begin, arr, cache, { c with cur := r, pc := .gsAcqR k g })
    | .exit :: r =>
      if c.stack.isEmpty then some (.skip, arr, cache, { c with cur := r })
      else some (.begin, arr, cache, { c with cur := r, pc := .exRel })
    | .raise :: _ => some (.raiseBody, arr, cache, toUnwind c)
    | .rmv k f o :: r => some (.begin, arr, cache, { c with cur := r, pc := .rmChk k f o })
    | [] =>
      if !c.stack.isEmpty then some (.begin, arr, cache, { c with pc := .exRel })
      else match c.rest with
        | seg :: more => some (.nextSeg, arr, cache, { c with cur := seg, rest := more })
        | [] => none
  | .gsAcqR k g =>
    if arr (idx k) ≥ 0 then
      some (.acqR k, upd arr (idx k) (arr (idx k) + 1), cache,
            { c with book := upd c.book k (c.book k + 1), pc := .gsChk1 k g })
    else some (.spin, arr, cache, c)
  | .gsChk1 k g =>
    match cache k with
    | some _ => some (.contains k true, arr, cache, { c with pc := .gsGet1 k })
    | none => some (.contains k false, arr, cache, { c with pc := .gsRelR k g })
  | .gsGet1 k =>
    match cache k with
    | some v => some (.cget k v, arr, cache, { c with pc := .gsEnter k v })
    | none => none
  | .gsRelR k g =>
    let c1 := { c with book := upd c.book k (c.book k - 1) }
    some (.relR k, upd arr (idx k) (arr (idx k) - 1), cache,
          if c1.book k ≠ 0 then toHandler c1 k else { c1 with pc := .gsAcqW k g })
  | .gsAcqW k g =>
    if arr (idx k) = 0 then
      some (.acqW k, upd arr (idx k) (-1), cache, { c with book := upd c.book k (-1), pc := .gsChk2 k g })
    else if c.tn && !c.stack.isEmpty then some (.refuse k, arr, cache, toHandler c k)
    else some (.spin, arr, cache, c)
  | .gsChk2 k g =>
    match cache k with
    | some _ => some (.contains k true, arr, cache, { c with pc := .gsSwA k })
    | none => some (.contains k false, arr, cache, { c with pc := .gsPop k g })
  | .gsSwA k =>
    some (.sw k, upd arr (idx k) 1, cache, { c with book := upd c.book k 1, pc := .gsGet2 k })
  | .gsGet2 k =>
    match cache k with
    | some v => some (.cget k v, arr, cache, { c with pc := .gsEnter k v })
    | none => none
  | .gsPop k g => some (.ccreate k, arr, cache, { c with pc := .gsPopW k g })
  | .gsPopW k g =>
    match g with
    | .ok v => some (.cpop k v, arr, upd cache k (some v), { c with pc := .gsSwB k v })
    | .fail => some (.cpopFail k, arr, cache, toHandler c k)
  | .gsSwB k v =>
    some (.sw k, upd arr (idx k) 1, cache, { c with book := upd c.book k 1, pc := .gsEnter k v })
  | .gsEnter k v =>
    some (.enter k v, arr, cache, { c with stack := k :: c.stack, pc := .idle })
  | .gsHRelR k =>
    let c1 := { c with book := upd c.book k (c.book k - 1) }
    some (.relR k, upd arr (idx k) (arr (idx k) - 1), cache, afterHRelR c1 k)
  | .gsHRelW k =>
    some (.relW k, upd arr (idx k) 0, cache, toUnwind { c with book := upd c.book k 0 })
  | .exRel =>
    match c.stack with
    | k :: t =>
      some (.relR k, upd arr (idx k) (arr (idx k) - 1), cache,
            { c with book := upd c.book k (c.book k - 1), stack := t, pc := .idle })
    | [] => none
  | .rmChk k f o =>
    match cache k with
    | some _ =>
      if c.book k ≠ 0 then some (.contains k true, arr, cache, toUnwind c)   -- CobaException "unrecoverable state"
      else some (.contains k true, arr, cache, { c with pc := .rmAcqW k f })
    | none =>
      if o then
        if c.book k ≠ 0 then some (.contains k true, arr, cache, toUnwind c)
        else some (.contains k true, arr, cache, { c with pc := .rmAcqW k f })
      else some (.contains k false, arr, cache, { c with pc := .idle })
  | .rmAcqW k f =>
    if arr (idx k) = 0 then
      some (.acqW k, upd arr (idx k) (-1), cache, { c with book := upd c.book k (-1), pc := .rmRemove k f })
    else if c.tn && !c.stack.isEmpty then some (.refuse k, arr, cache, toUnwind c)
    else some (.spin, arr, cache, c)
  | .rmRemove k f =>
    if f then some (.crmvFail k, arr, cache, { c with pc := .rmHRelW k })
    else some (.crmv k (cache k).isSome, arr, upd cache k none, { c with pc := .rmRelW k })
  | .rmRelW k =>
    some (.relW k, upd arr (idx k) 0, cache, { c with book := upd c.book k 0, pc := .idle })
  | .rmHRelW k =>
    some (.relW k, upd arr (idx k) 0, cache, toUnwind { c with book := upd c.book k 0 })
  | .unwind =>
    match c.stack with
    | k :: t =>
      some (.relR k, upd arr (idx k) (arr (idx k) - 1), cache,
            toUnwind { c with book := upd c.book k (c.book k - 1), stack := t })
    | [] => none

def step (idx : Nat → Nat) (s : St) (i : Nat) : Option (Ev × St) :=
  match s.cs[i]? with
  | none => none
  | some c =>
    match stepC idx s.arr s.cache c with
    | none => none
    | some (ev, a, ch, c') => some (ev, { arr := a, cache := ch, cs := s.cs.set i c' })

def mkCallerT (tn : Bool) (prog : List (List Instr)) : Caller :=
  { pc := .idle, cur := [], rest := prog, stack := [], book := fun _ => 0, tn := tn }

def mkCaller (prog : List (List Instr)) : Caller := mkCallerT false prog

def init (progs : List (List (List Instr))) : St :=
  { arr := fun _ => 0, cache := fun _ => none, cs := progs.map mkCaller }

/-- initial state of the repaired code (every caller has the switch set) -/
def initR (progs : List (List (List Instr))) : St :=
  { arr := fun _ => 0, cache := fun _ => none, cs := progs.map (mkCallerT true) }

/-- run a schedule (list of caller numbers); a scheduled caller that has no step is skipped -/
def run (idx : Nat → Nat) : St → List Nat → St × List (Nat × Ev)
  | s, [] => (s, [])
  | s, i :: is =>
    match step idx s i with
    | none => run idx s is
    | some (ev, s') => let r := run idx s' is; (r.1, (i, ev) :: r.2)

def St.allTerminal (s : St) : Bool := s.cs.all Caller.terminal


/-- nobody can move: some caller is not terminal and every caller's only step is a failed lock guard -/
def St.deadlocked (idx : Nat → Nat) (s : St) : Bool :=
  !s.allTerminal && (List.range s.cs.length).all (fun i =>
    match step idx s i with
    | some (ev, _) => ev == Ev.spin
    | none => true)


/-! ### infinite runs and fairness -/

/-- state after `n` ticks of the infinite schedule `σ` (a tick whose caller has no step changes nothing) -/
def runN (idx : Nat → Nat) (s : St) (σ : Nat → Nat) : Nat → St
  | 0 => s
  | t + 1 =>
    match step idx (runN idx s σ t) (σ t) with
    | some (_, s') => s'
    | none => runN idx s σ t

/-- the scheduler is fair: every one of the `n` callers gets a turn again and again -/
def FairSched (n : Nat) (σ : Nat → Nat) : Prop := ∀ i, i < n → ∀ t, ∃ t', t ≤ t' ∧ σ t' = i


/-! ### program predicates (the quantifier of the property) -/

/-- walks one segment with the with-stack it would have; `ok stack k` must hold at every nested
operation on key `k`.  After `raise` the rest of the segment is never executed. -/
def segOk (ok : List Nat → Nat → Bool) : List Nat → List Instr → Bool
  | _, [] => true
  | st, .getSet k _ :: r => ok st k && segOk ok (k :: st) r
  | st, .exit :: r => segOk ok st.tail r
  | _, .raise :: _ => true
  | st, .rmv k _ _ :: r => ok st k && segOk ok st r

/-- the property's exclusion: a caller never operates on a key that collides with a *different*
key it is currently reading -/
def wellNestedOk (idx : Nat → Nat) (st : List Nat) (k : Nat) : Bool :=
  st.all (fun j => j == k || idx j != idx k)

/-- lock hierarchy: a nested operation targets a key already being read by the caller or a key
whose index is larger than every index the caller holds -/
def hierOk (idx : Nat → Nat) (st : List Nat) (k : Nat) : Bool :=
  st.contains k || st.all (fun j => idx j < idx k)

def WellNested (idx : Nat → Nat) (prog : List (List Instr)) : Bool := prog.all (segOk (wellNestedOk idx) [])
def Hier (idx : Nat → Nat) (prog : List (List Instr)) : Bool := prog.all (segOk (hierOk idx) [])


/-! ### specification vocabulary: who holds what -/

/-- key on which the current phase of an operation itself holds a read lock -/
def Pc.readKey : Pc → Option Nat
  | .gsChk1 k _ => some k | .gsGet1 k => some k | .gsRelR k _ => some k
  | .gsGet2 k => some k | .gsEnter k _ => some k
  | _ => none

/-- key on which the current phase holds the write lock -/
def Pc.writeKey : Pc → Option Nat
  | .gsChk2 k _ => some k | .gsSwA k => some k | .gsPop k _ => some k | .gsPopW k _ => some k | .gsSwB k _ => some k
  | .gsHRelW k => some k | .rmRemove k _ => some k | .rmRelW k => some k | .rmHRelW k => some k
  | _ => none

/-- all keys on which the caller holds a read lock (operation in flight + entered with-blocks) -/
def Caller.reads (c : Caller) : List Nat := c.pc.readKey.toList ++ c.stack

/-- number of read locks the caller holds on index `i` -/
def Caller.rc (idx : Nat → Nat) (c : Caller) (i : Nat) : Nat := c.reads.countP (fun k => idx k == i)

/-- 1 if the caller holds the write lock of index `i` -/
def Caller.wc (idx : Nat → Nat) (c : Caller) (i : Nat) : Nat :=
  match c.pc.writeKey with
  | some k => if idx k = i then 1 else 0
  | none => 0

def sumBy (f : Caller → Nat) : List Caller → Nat
  | [] => 0
  | c :: cs => f c + sumBy f cs

def St.R (idx : Nat → Nat) (s : St) (i : Nat) : Nat := sumBy (fun c => c.rc idx i) s.cs
def St.W (idx : Nat → Nat) (s : St) (i : Nat) : Nat := sumBy (fun c => c.wc idx i) s.cs


/-! ### what an unlocked `exists()` of a DiskCacher can see -/

/-- some caller is between creating the file of key `k` and closing it -/
def partialWriter (s : St) (k : Nat) : Bool :=
  s.cs.any (fun c => match c.pc with | .gsPopW k' _ => k' == k | _ => false)

/-- `DiskCacher.__contains__` = `exists()`: true for a complete entry and for a half-written file -/
def unlockedSees (s : St) (k : Nat) : Bool := (s.cache k).isSome || partialWriter s k

/-! ### wait-for graph -/

/-- key whose write lock the caller is waiting for -/
def Pc.wantW : Pc → Option Nat
  | .gsAcqW k _ => some k
  | .rmAcqW k _ => some k
  | _ => none

/-- key whose read lock the caller is waiting for -/
def Pc.wantR : Pc → Option Nat
  | .gsAcqR k _ => some k
  | _ => none

/-- caller `i` waits for caller `j`: `i` requests the write lock of an index on which `j` holds a
read or write lock, or `i` requests a read lock on an index whose write lock `j` holds -/
def waitsFor (idx : Nat → Nat) (s : St) (i j : Nat) : Bool :=
  match s.cs[i]?, s.cs[j]? with
  | some c, some d =>
    (match c.pc.wantW with
      | some k => decide (0 < d.rc idx (idx k)) || decide (0 < d.wc idx (idx k))
      | none => false) ||
    (match c.pc.wantR with
      | some k => decide (0 < d.wc idx (idx k))
      | none => false)
  | _, _ => false

/-- a non-empty path in the wait-for graph -/
inductive WaitPath (idx : Nat → Nat) (s : St) : Nat → Nat → Prop
  | one {i j} : waitsFor idx s i j = true → WaitPath idx s i j
  | cons {i j k} : waitsFor idx s i j = true → WaitPath idx s j k → WaitPath idx s i k

def waitEdges (idx : Nat → Nat) (s : St) : List (Nat × Nat) :=
  (List.range s.cs.length).flatMap (fun i => ((List.range s.cs.length).filter (fun j => waitsFor idx s i j)).map (fun j => (i, j)))

/-- facts that hold at particular program counters (the caller holds the matching lock there) -/
def pcOK (cache : Nat → Option Nat) (c : Caller) : Prop :=
  match c.pc with
  | .gsGet1 k => (cache k).isSome
  | .gsRelR k _ => cache k = none
  | .gsAcqW k _ => k ∉ c.stack
  | .rmAcqW k _ => k ∉ c.stack
  | .gsSwA k => (cache k).isSome
  | .gsGet2 k => (cache k).isSome
  | .gsPop k _ => cache k = none
  | .gsPopW k _ => cache k = none
  | .gsSwB k v => cache k = some v
  | .gsEnter k v => cache k = some v
  | .gsHRelR _ => False
  | .gsHRelW k => cache k = none
  | .exRel => c.stack ≠ []
  | .unwind => c.stack ≠ [] ∧ c.cur = []
  | _ => True

/-- `_locks` agrees with what the caller really holds -/
def bookOK (c : Caller) : Prop :=
  ∀ k, c.book k = if c.pc.writeKey = some k then -1 else (c.reads.count k : Int)

/-- the inductive invariant -/
structure Inv (idx : Nat → Nat) (s : St) : Prop where
  /-- `array i = -1` ⇔ exactly one write holder on index `i` and no reader; otherwise `array i` = number of read holds -/
  locks : ∀ i, (s.W idx i = 0 ∧ s.arr i = (s.R idx i : Int)) ∨ (s.W idx i = 1 ∧ s.R idx i = 0 ∧ s.arr i = -1)
  book : ∀ (j : Nat) (c : Caller), s.cs[j]? = some c → bookOK c
  /-- a key inside somebody's with-block is cached -/
  stack : ∀ (j : Nat) (c : Caller), s.cs[j]? = some c → ∀ k ∈ c.stack, (s.cache k).isSome
  pc : ∀ (j : Nat) (c : Caller), s.cs[j]? = some c → pcOK s.cache c

inductive Reachable (idx : Nat → Nat) (progs : List (List (List Instr))) : St → Prop
  | init : Reachable idx progs (init progs)
  | step {s s' i ev} : Reachable idx progs s → step idx s i = some (ev, s') → Reachable idx progs s'

/-- reachable states of the repaired code -/
inductive ReachableR (idx : Nat → Nat) (progs : List (List (List Instr))) : St → Prop
  | init : ReachableR idx progs (initR progs)
  | step {s s' i ev} : ReachableR idx progs s → step idx s i = some (ev, s') → ReachableR idx progs s'

/-- variant: strictly decreases with every step that is not a failed lock guard -/
def Pc.rank : Pc → Nat
  | .idle => 2 | .gsAcqR _ _ => 14 | .gsChk1 _ _ => 13 | .gsGet1 _ => 7 | .gsRelR _ _ => 12
  | .gsAcqW _ _ => 11 | .gsChk2 _ _ => 10 | .gsSwA _ => 8 | .gsGet2 _ => 7 | .gsPop _ _ => 9 | .gsPopW _ _ => 8
  | .gsSwB _ _ => 7 | .gsEnter _ _ => 6 | .gsHRelR _ => 4 | .gsHRelW _ => 3 | .exRel => 1
  | .rmChk _ _ _ => 6 | .rmAcqW _ _ => 5 | .rmRemove _ _ => 4 | .rmRelW _ => 3 | .rmHRelW _ => 3 | .unwind => 2

def restWeight : List (List Instr) → Nat
  | [] => 0
  | seg :: more => 16 * seg.length + 1 + restWeight more

def Caller.measure (c : Caller) : Nat := c.pc.rank + 16 * c.cur.length + restWeight c.rest + 3 * c.stack.length
def St.measure (s : St) : Nat := sumBy Caller.measure s.cs


/-- per-caller form of the lock hierarchy: what `Hier` guarantees at every point of a run -/
def hierC (idx : Nat → Nat) (c : Caller) : Prop :=
  (∀ seg ∈ c.rest, segOk (hierOk idx) [] seg = true) ∧
  match c.pc with
  | .idle => segOk (hierOk idx) c.stack c.cur = true
  | .gsAcqR k _ => hierOk idx c.stack k = true ∧ segOk (hierOk idx) (k :: c.stack) c.cur = true
  | .gsChk1 k _ => hierOk idx c.stack k = true ∧ segOk (hierOk idx) (k :: c.stack) c.cur = true
  | .gsRelR k _ => hierOk idx c.stack k = true ∧ segOk (hierOk idx) (k :: c.stack) c.cur = true
  | .gsAcqW k _ => hierOk idx c.stack k = true ∧ segOk (hierOk idx) (k :: c.stack) c.cur = true
  | .gsChk2 k _ => segOk (hierOk idx) (k :: c.stack) c.cur = true
  | .gsPop k _ => segOk (hierOk idx) (k :: c.stack) c.cur = true
  | .gsPopW k _ => segOk (hierOk idx) (k :: c.stack) c.cur = true
  | .gsGet1 k => segOk (hierOk idx) (k :: c.stack) c.cur = true
  | .gsSwA k => segOk (hierOk idx) (k :: c.stack) c.cur = true
  | .gsGet2 k => segOk (hierOk idx) (k :: c.stack) c.cur = true
  | .gsSwB k _ => segOk (hierOk idx) (k :: c.stack) c.cur = true
  | .gsEnter k _ => segOk (hierOk idx) (k :: c.stack) c.cur = true
  | .exRel => segOk (hierOk idx) c.stack.tail c.cur = true
  | .rmChk k _ _ => hierOk idx c.stack k = true ∧ segOk (hierOk idx) c.stack c.cur = true
  | .rmAcqW k _ => hierOk idx c.stack k = true ∧ segOk (hierOk idx) c.stack c.cur = true
  | .rmRemove _ _ => segOk (hierOk idx) c.stack c.cur = true
  | .rmRelW _ => segOk (hierOk idx) c.stack c.cur = true
  | .gsHRelR _ => True
  | .gsHRelW _ => True
  | .rmHRelW _ => True
  | .unwind => True


/-! ### trace vocabulary for single flight -/

/-- 1 if the event is a completed getter run that populated key `k` -/
def evPop (k : Nat) : Ev → Nat
  | .cpop k' _ => if k' = k then 1 else 0
  | _ => 0

/-- 1 if the event removed the cached entry of key `k` -/
def evRmv (k : Nat) : Ev → Nat
  | .crmv k' true => if k' = k then 1 else 0
  | _ => 0

def popCount (k : Nat) : List (Nat × Ev) → Nat
  | [] => 0
  | e :: t => evPop k e.2 + popCount k t

def rmvCount (k : Nat) : List (Nat × Ev) → Nat
  | [] => 0
  | e :: t => evRmv k e.2 + rmvCount k t

def cachedN (cache : Nat → Option Nat) (k : Nat) : Nat := if (cache k).isSome then 1 else 0


/-! ### provenance of values (complete values) -/

def instrP (P : Nat → Nat → Prop) : Instr → Prop
  | .getSet k (.ok v) => P k v
  | _ => True

def getterP (P : Nat → Nat → Prop) (k : Nat) : Getter → Prop
  | .ok v => P k v
  | .fail => True

/-- every getter result still to be produced by the caller satisfies `P` -/
def provC (P : Nat → Nat → Prop) (c : Caller) : Prop :=
  (∀ ins ∈ c.cur, instrP P ins) ∧ (∀ seg ∈ c.rest, ∀ ins ∈ seg, instrP P ins) ∧
  match c.pc with
  | .gsAcqR k g => getterP P k g
  | .gsChk1 k g => getterP P k g
  | .gsRelR k g => getterP P k g
  | .gsAcqW k g => getterP P k g
  | .gsChk2 k g => getterP P k g
  | .gsPop k g => getterP P k g
  | .gsPopW k g => getterP P k g
  | .gsSwB k v => P k v
  | _ => True

/-! ### DiskCacher.get_set over a file system modelled as a map key ↦ bytes -/

/-- what the getter + gzip writer manage to put on disk -/
inductive Write where
  | complete (bytes : List Nat)           -- the whole entry was written and closed
  | cutAfter (bytes : List Nat)           -- the getter / the write raised after these bytes
  | failBefore                            -- the getter raised before the file was created
  deriving DecidableEq, Repr

inductive DiskOut where
  | value (bytes : List Nat)              -- a reader on these (complete) bytes is returned
  | raised
  deriving DecidableEq, Repr

abbrev Fs := Nat → Option (List Nat)

/-- `DiskCacher.get_set(key, getter)`; `present` files are complete entries or whatever an
earlier crash left behind -/
def diskGetSet (fs : Fs) (key : Nat) (w : Write) : Fs × DiskOut :=
  -- `if key in self and getsize == 0: self.rmv(key)`
  let fs1 : Fs := match fs key with
    | some [] => upd fs key none
    | _ => fs
  match fs1 key with
  | some bytes => (fs1, .value bytes)
  | none =>
    match w with
    | .complete bytes => (upd fs1 key (some bytes), .value bytes)
    | .cutAfter _ => (upd fs1 key none, .raised)     -- except: if key in self: self.rmv(key); raise
    | .failBefore => (fs1, .raised)

/-- `ConcurrentCacher(DiskCacher).get_set(key, getter)` for a single caller: an existing file (of any
length — `DiskCacher.__contains__` is `exists()`) sends ConcurrentCacher down its read path, which calls
`DiskCacher.get_set(key, None)`; for a zero-length file that removes the file, creates it again and
fails on `for line in None` (TypeError), removing it once more.  An absent file takes the write path. -/
def concDiskGetSet (fs : Fs) (key : Nat) (w : Write) : Fs × DiskOut :=
  match fs key with
  | some _ => diskGetSet fs key (.cutAfter [])
  | none => diskGetSet fs key w

/-! ### OpenmlSource.read: permit accounting of the shared download semaphore -/

structure SemTrace where
  acquires : Nat
  releases : Nat
  deriving DecidableEq, Repr

/-- `OpenmlSource.read` with respect to `CobaContext.store['openml_semaphore']`: `hasSem` – a semaphore is
installed; `cached1` – `_source_already_cached()` at the first check; `cached2` – at the re-check after
`acquire()` returned (a peer may have cached everything meanwhile).  The `finally:` of the generator runs
however the read ends (exhausted, raising, abandoned and closed), so the body outcome does not matter. -/
def openmlSem (hasSem cached1 cached2 : Bool) : SemTrace :=
  let needs := hasSem && !cached1
  let early := needs && cached2            -- `openml_semaphore.release()` right after the re-check
  let flag := needs && !cached2            -- `semaphore_acquired = True`, released in `finally`
  { acquires := if needs then 1 else 0, releases := (if early then 1 else 0) + (if flag then 1 else 0) }

/-- one read against a semaphore with `p` free permits: `none` = the reader would have to wait (no permit) -/
def semStep (p : Nat) (r : Bool × Bool × Bool) : Option Nat :=
  let t := openmlSem r.1 r.2.1 r.2.2
  if t.acquires ≤ p then some (p - t.acquires + t.releases) else none

/-- a sequence of reads (data-id or task-id sources alike: the semaphore protocol is the same) one after the other -/
def semRun : Nat → List (Bool × Bool × Bool) → Option Nat
  | p, [] => some p
  | p, r :: rs => match semStep p r with
    | some p' => semRun p' rs
    | none => none

/-! ### Phase 4: the download semaphore (`CobaContext.store['openml_semaphore']`) as an interleaving system -/

/-- one `OpenmlSource.read` as far as the semaphore is concerned -/
structure SRead where
  c1 : Bool     -- `_source_already_cached()` at the first check
  c2 : Bool     -- … at the re-check after `acquire()` returned (a peer may have cached everything meanwhile)
  exc : Bool    -- the download / parse / the consumer raises (any BaseException, GeneratorExit of an abandoned read included)
  deriving DecidableEq, Repr

inductive SPc where
  | idle                  -- between reads
  | want (r : SRead)      -- next: `openml_semaphore.acquire()` (waits while no permit is free)
  | recheck (r : SRead)   -- holds a permit; next: the re-check `_source_already_cached()`
  | inside (r : SRead)    -- `semaphore_acquired = True`: downloading, holds a permit
  | fin (held : Bool)     -- in `finally:`; next: `if semaphore_acquired: openml_semaphore.release()`
  deriving DecidableEq, Repr

inductive SEv where
  | cachedRead | request | acquire | wait | releaseEarly | enterDownload | done | raised | release | noRelease
  deriving DecidableEq, Repr

structure SCaller where
  pc : SPc
  todo : List SRead

structure SSt where
  free : Nat
  cs : List SCaller

def SCaller.terminal (c : SCaller) : Bool := (c.pc == SPc.idle) && c.todo.isEmpty

/-- 1 while the caller holds a permit -/
def SCaller.holds (c : SCaller) : Nat :=
  match c.pc with
  | .recheck _ => 1 | .inside _ => 1 | .fin true => 1 | _ => 0

/-- 1 while the caller is downloading (between `semaphore_acquired = True` and the `finally`) -/
def SCaller.downloading (c : SCaller) : Nat :=
  match c.pc with
  | .inside _ => 1 | _ => 0

def semStepC (free : Nat) (c : SCaller) : Option (SEv × Nat × SCaller) :=
  match c.pc with
  | .idle =>
    match c.todo with
    | [] => none
    | r :: t => if r.c1 then some (.cachedRead, free, { pc := .fin false, todo := t })
                else some (.request, free, { pc := .want r, todo := t })
  | .want r => if 0 < free then some (.acquire, free - 1, { c with pc := .recheck r }) else some (.wait, free, c)
  | .recheck r => if r.c2 then some (.releaseEarly, free + 1, { c with pc := .fin false })
                  else some (.enterDownload, free, { c with pc := .inside r })
  | .inside r => some (if r.exc then .raised else .done, free, { c with pc := .fin true })
  | .fin true => some (.release, free + 1, { c with pc := .idle })
  | .fin false => some (.noRelease, free, { c with pc := .idle })

def sstep (s : SSt) (i : Nat) : Option (SEv × SSt) :=
  match s.cs[i]? with
  | none => none
  | some c =>
    match semStepC s.free c with
    | none => none
    | some (ev, f, c') => some (ev, { free := f, cs := s.cs.set i c' })

def sinit (permits : Nat) (progs : List (List SRead)) : SSt :=
  { free := permits, cs := progs.map (fun p => { pc := .idle, todo := p }) }

inductive SReachable (permits : Nat) (progs : List (List SRead)) : SSt → Prop
  | init : SReachable permits progs (sinit permits progs)
  | step {s s' i ev} : SReachable permits progs s → sstep s i = some (ev, s') → SReachable permits progs s'

def ssum (f : SCaller → Nat) : List SCaller → Nat
  | [] => 0
  | c :: cs => f c + ssum f cs

def SSt.holders (s : SSt) : Nat := ssum SCaller.holds s.cs
def SSt.downloads (s : SSt) : Nat := ssum SCaller.downloading s.cs
def SSt.allTerminal (s : SSt) : Bool := s.cs.all SCaller.terminal

def srun : SSt → List Nat → SSt × List (Nat × SEv)
  | s, [] => (s, [])
  | s, i :: is =>
    match sstep s i with
    | none => srun s is
    | some (ev, s') => let r := srun s' is; (r.1, (i, ev) :: r.2)

def SPc.rank : SPc → Nat
  | .idle => 0 | .want _ => 5 | .recheck _ => 4 | .inside _ => 3 | .fin _ => 1

def SCaller.measure (c : SCaller) : Nat := c.pc.rank + 7 * c.todo.length
def SSt.measure (s : SSt) : Nat := ssum SCaller.measure s.cs

/-! ### Phase 4: the DiskCacher write as several steps inside the scheduled system

`DiskCacher.get_set` writes in place: `gzip.open(path, "wt+")` creates / truncates the file (zero-length on disk
until the first flush), the lines are written one by one, leaving the `with` closes it.  The file-level system
`DSt` pairs the lock-protocol state `St` with the files; on its turn a caller performs its next protocol step
(`DAct.base`) or, while it is the writer of an entry (`gsPopW`), writes one more chunk / closes the file — these
are extra steps of the schedule, so every other caller can run between any two of them. -/

inductive FileSt where
  | absent
  | opened (w : List Nat)     -- created by `gzip.open(…, "wt+")`, not yet closed; `w` = chunks written so far (`[]`: zero-length)
  | closed (w : List Nat)     -- closed (a valid gzip file with this content)
  deriving DecidableEq, Repr

/-- what `DiskCacher.get_set(key, None)` — the read path of ConcurrentCacher — does with the file as it is -/
inductive DiskRead where
  | complete (w : List Nat)      -- a closed file: a reader on its whole content
  | partialSeen (w : List Nat)   -- a file that is still being written is opened: short content / EOFError
  | zeroLength                   -- `getsize == 0`: the reader REMOVES the file under the writer and fails on `for line in None`
  | missing                      -- no file: `for line in None` raises
  deriving DecidableEq, Repr

def diskRead : FileSt → DiskRead
  | .absent => .missing
  | .opened [] => .zeroLength
  | .opened (b :: w) => .partialSeen (b :: w)
  | .closed w => .complete w

structure DSt where
  base : St
  file : Nat → FileSt

inductive DAct where
  | base               -- the caller's next step of the lock protocol / inner-cache call (`step`)
  | chunk (b : Nat)    -- the writer writes one more chunk
  | close              -- the writer leaves `with gzip.open(...)`: the file is closed
  deriving DecidableEq, Repr

inductive DEv where
  | base (ev : Ev) (obs : Option DiskRead)   -- `obs`: what a `cget` found on disk
  | chunk (k b : Nat)
  | close (k : Nat)
  deriving DecidableEq, Repr

/-- a successful getter writes exactly the chunks of its value (`enc v`), in order; a failing one wrote anything before it raised -/
def chunkOk (enc : Nat → List Nat) (g : Getter) (w : List Nat) (b : Nat) : Bool :=
  match g with
  | .ok v => (w ++ [b]).isPrefixOf (enc v)
  | .fail => true

def closeOk (enc : Nat → List Nat) (g : Getter) (w : List Nat) : Bool :=
  match g with
  | .ok v => w == enc v
  | .fail => true

/-- `DiskCacher.get_set` returns (event `cpop`) only after the file was completely written and closed -/
def baseOk (enc : Nat → List Nat) (file : Nat → FileSt) : Ev → Bool
  | .cpop k v => file k == .closed (enc v)
  | _ => true

def fileAfter (file : Nat → FileSt) : Ev → Nat → FileSt
  | .ccreate k => upd file k (.opened [])     -- open + truncate
  | .cpopFail k => upd file k .absent         -- `except: if key in self: self.rmv(key); raise`
  | .crmv k _ => upd file k .absent
  | _ => file

def obsOf (file : Nat → FileSt) : Ev → Option DiskRead
  | .cget k _ => some (diskRead (file k))
  | _ => none

def dstep (enc : Nat → List Nat) (idx : Nat → Nat) (s : DSt) (i : Nat) (a : DAct) : Option (DEv × DSt) :=
  match a with
  | .base =>
    match step idx s.base i with
    | none => none
    | some (ev, b') =>
      if baseOk enc s.file ev then some (.base ev (obsOf s.file ev), { base := b', file := fileAfter s.file ev }) else none
  | .chunk b =>
    match s.base.cs[i]? with
    | none => none
    | some c =>
      match c.pc with
      | .gsPopW k g =>
        match s.file k with
        | .opened w => if chunkOk enc g w b then some (.chunk k b, { s with file := upd s.file k (.opened (w ++ [b])) }) else none
        | _ => none
      | _ => none
  | .close =>
    match s.base.cs[i]? with
    | none => none
    | some c =>
      match c.pc with
      | .gsPopW k g =>
        match s.file k with
        | .opened w => if closeOk enc g w then some (.close k, { s with file := upd s.file k (.closed w) }) else none
        | _ => none
      | _ => none

def dinit (progs : List (List (List Instr))) : DSt := { base := init progs, file := fun _ => .absent }

inductive DReachable (enc : Nat → List Nat) (idx : Nat → Nat) (progs : List (List (List Instr))) : DSt → Prop
  | init : DReachable enc idx progs (dinit progs)
  | step {s s' i a ev} : DReachable enc idx progs s → dstep enc idx s i a = some (ev, s') → DReachable enc idx progs s'

/-- run a schedule of (caller, action) pairs; entries without a step are skipped -/
def drun (enc : Nat → List Nat) (idx : Nat → Nat) : DSt → List (Nat × DAct) → DSt × List (Nat × DEv)
  | s, [] => (s, [])
  | s, (i, a) :: is =>
    match dstep enc idx s i a with
    | none => drun enc idx s is
    | some (ev, s') => let r := drun enc idx s' is; (r.1, (i, ev) :: r.2)

/-- files and inner-cache contents agree: a cached entry's file is closed and complete; a key that is neither
cached nor being written has no file -/
def DInv (enc : Nat → List Nat) (s : DSt) : Prop :=
  ∀ k, (∀ v, s.base.cache k = some v → s.file k = .closed (enc v)) ∧
       (s.base.cache k = none → partialWriter s.base k = false → s.file k = .absent)

/-- what is left to write for caller `i` (successful getter): chunks still missing + the close -/
def writeLeft (enc : Nat → List Nat) (s : DSt) (i : Nat) : Nat :=
  match s.base.cs[i]? with
  | some c =>
    (match c.pc with
     | .gsPopW k (.ok v) => (match s.file k with | .opened w => (enc v).length + 1 - w.length | _ => 0)
     | _ => 0)
  | none => 0

/-- the same two callers WITHOUT ConcurrentCacher (a bare DiskCacher shared by two processes): the reader's
`get_set` runs while the writer's file is open -/
def rawDiskRace (written : List Nat) : DiskRead := diskRead (.opened written)


/-! ### Phase 5: ghost clock — get_set-only programs on collision-free keys have no wait-for cycle

`GSt` instruments `St` with a global clock (one tick per step), the time `tm i` of caller `i`'s latest miss
(`contains _ false`) and the time `tp k` at which key `k` was populated last (`cpop k _`).  The instrumentation only
observes: `gstep` takes exactly the steps of `step` (refinement in both directions, `ghost_refines`).  Without `rmv` a
cached key stays cached, so a caller that waits for the write lock of `k` (it missed `k` at `tm i`) can only be blocked by
a with-block holder that entered `k` after `k` was populated, i.e. after `tm i`; if that holder waits too its own miss is
later still: `tm` strictly increases along wait-for edges between waiting callers. -/

/-- the key the caller missed at its first check and is about to populate (`gsRelR`, `gsAcqW`) -/
def Pc.missKey : Pc → Option Nat
  | .gsRelR k _ => some k | .gsAcqW k _ => some k | _ => none

def evMiss : Ev → Bool
  | .contains _ false => true | _ => false

def evPopKey : Ev → Option Nat
  | .cpop k _ => some k | _ => none

structure GSt where
  base : St
  clock : Nat
  tm : Nat → Nat     -- caller ↦ time of its latest miss
  tp : Nat → Nat     -- key ↦ time of its latest successful populate

def gstep (idx : Nat → Nat) (g : GSt) (i : Nat) : Option (Ev × GSt) :=
  match step idx g.base i with
  | none => none
  | some (ev, s') =>
    some (ev, { base := s', clock := g.clock + 1,
                tm := if evMiss ev then upd g.tm i g.clock else g.tm,
                tp := match evPopKey ev with | some k => upd g.tp k g.clock | none => g.tp })

def ginit (progs : List (List (List Instr))) : GSt :=
  { base := init progs, clock := 0, tm := fun _ => 0, tp := fun _ => 0 }

inductive GReachable (idx : Nat → Nat) (progs : List (List (List Instr))) : GSt → Prop
  | init : GReachable idx progs (ginit progs)
  | step {g g' i ev} : GReachable idx progs g → gstep idx g i = some (ev, g') → GReachable idx progs g'

/-- run a schedule in the instrumented system (entries without a step are skipped, as in `run`) -/
def grun (idx : Nat → Nat) : GSt → List Nat → GSt
  | g, [] => g
  | g, i :: is =>
    match gstep idx g i with
    | none => grun idx g is
    | some (_, g') => grun idx g' is

def Instr.isRmv : Instr → Bool
  | .rmv _ _ _ => true | _ => false

/-- the program uses `get_set` (with-blocks, exits, raising bodies) only -/
def GetSetOnly (prog : List (List Instr)) : Bool := prog.all (fun seg => seg.all (fun ins => !ins.isRmv))

/-- the key an instruction operates on -/
def Instr.key? : Instr → Option Nat
  | .getSet k _ => some k | .rmv k _ _ => some k | _ => none

/-- all keys the programs mention -/
def progKeys (progs : List (List (List Instr))) : List Nat :=
  progs.flatMap (fun p => p.flatMap (fun seg => seg.filterMap Instr.key?))

/-- no two different keys of the programs share a slot of the lock table -/
def CollisionFree (idx : Nat → Nat) (progs : List (List (List Instr))) : Bool :=
  (progKeys progs).all (fun a => (progKeys progs).all (fun b => idx a != idx b || a == b))

/-- the ghost invariant, as a decidable check over the given keys (evaluated by the driver on every replayed run) -/
def GSt.stampsOK (g : GSt) (keys : List Nat) : Bool :=
  keys.all (fun k => match g.base.cache k with | some _ => decide (g.tp k < g.clock) | none => true) &&
  (List.range g.base.cs.length).all (fun j =>
    match g.base.cs[j]? with
    | some c =>
      match c.pc.missKey with
      | some k => decide (g.tm j < g.clock) && c.stack.all (fun k' => decide (g.tp k' < g.tm j)) &&
                  (match g.base.cache k with | some _ => decide (g.tm j < g.tp k) | none => true)
      | none => true
    | none => true)


/-! ### Phase 5: the protocol as the source spells it (compared with `Generated/C19Protocol.lean`, extracted with `ast`) -/

/-- the calls of `ConcurrentCacher` behind one model event, in the translator's call codes: 1 `_acquire_read_lock`, 2 `_release_read_lock`,
3 `_acquire_write_lock`, 4 `_release_write_lock`, 5 `_switch_write_to_read_lock`, 6 `key in …`, 7 `_cache.get_set(key, None)`,
8 `_cache.get_set(key, getter)`, 9 `_has_read_lock`, 10 `_has_write_lock` (the two tests of the `except:` handler, `toHandler`),
11 `_release_read_on_exit`, 12 `return`, 13 `_cache.rmv` -/
def evCalls : Ev → List Nat
  | .acqR _ => [1] | .relR _ => [2] | .acqW _ => [3] | .relW _ => [4] | .sw _ => [5]
  | .contains _ _ => [6] | .cget _ _ => [7] | .ccreate _ => [8] | .cpopFail _ => [9, 10]
  | .enter _ _ => [11, 12] | .crmv _ _ => [13] | .crmvFail _ => [13]
  | _ => []

def callsOf (evs : List (Nat × Ev)) : List Nat := evs.flatMap (fun e => evCalls e.2)

/-- a one-caller state: key 0 cached (value 7) or not -/
def protoSt (cached : Bool) (c : Caller) : St :=
  { arr := fun _ => 0, cache := fun k => if cached && k == 0 then some 7 else none, cs := [c] }

/-- the calls the MODEL makes for one `get_set(0, getter)`: `in1` / `in2` = the entry is cached at the first / second membership test,
`fails` = the getter raises.  Computed by running `step`: from the start of the operation to the first miss, and from the write-lock
request on (another caller may have populated the entry in between, hence the second start state). -/
def modelGetSetPath (in1 in2 fails : Bool) : List Nat :=
  let g := if fails then Getter.fail else Getter.ok 1
  if in1 then callsOf (run id (protoSt true (mkCaller [[.getSet 0 g]])) (List.replicate 6 0)).2
  else callsOf (run id (protoSt false (mkCaller [[.getSet 0 g]])) (List.replicate 5 0)).2 ++
       callsOf (run id (protoSt in2 { pc := .gsAcqW 0 g, cur := [], rest := [], stack := [], book := fun _ => 0, tn := false }) (List.replicate 6 0)).2

/-- the calls the model makes for one `rmv(0)` -/
def modelRmvPath (inSelf fails : Bool) : List Nat :=
  callsOf (run id (protoSt inSelf (mkCaller [[.rmv 0 fails false]])) (List.replicate 6 0)).2

/-- guard of a lock block as extracted: (op, constant), op 0 `==`, 1 `>=`, 2 `>`, 3 `<=`, 4 `<`, 5 `!=` -/
def guardHolds (g : Nat × Int) (x : Int) : Bool :=
  match g.1 with
  | 0 => x == g.2 | 1 => decide (x ≥ g.2) | 2 => decide (x > g.2) | 3 => decide (x ≤ g.2) | 4 => decide (x < g.2) | _ => x != g.2

/-- update of a lock block as extracted: (op, constant), op 0 `=`, 1 `+=`, 2 `-=` -/
def applyUpd (u : Nat × Int) (x : Int) : Int :=
  match u.1 with
  | 0 => u.2 | 1 => x + u.2 | _ => x - u.2

/-- key identity the model assumes (files and lock slots are both indexed by the key itself): the expression that becomes the file
name in `DiskCacher._cache_name` and the one hashed by `ConcurrentCacher._index` -/
def modelCacheNameKeyExpr : String := "key"
def modelCacheNameSuffix : String := ".gz"
def modelIndexKeyExpr : String := "str(key).encode('utf-8')"

/-! ### constants the model assumes (compared with the ones extracted from the source, `Generated/C19Consts.lean`) -/
/-- permits of the `openml_semaphore` CobaMultiprocessor installs -/
def modelPermits : Nat := 3
/-- bytes of the key digest that index the lock table; the table has `256 ^ modelDigestBytes` slots -/
def modelDigestBytes : Nat := 2
def modelSlots : Nat := 65536

/-! ## Phase 6: keys as the code sees them (typed keys)

The transition system indexes the inner cache by a key `k : Nat` and the lock table by `idx k` — it assumes that the lock slot is a
FUNCTION of the entry. The code computes the slot from `str(key)` (`_index`), while the inner cacher identifies entries by the key's own
equality (`==`/`hash` for MemoryCacher's dict; the file name for DiskCacher). `KeyRep` separates the two: `ident` = the entry (equality
class of the key for the inner cacher), `text` = code of `str(key)`; `h` = the 16-bit hash of the text. -/
structure KeyRep where
  ident : Nat
  text  : Nat
  deriving DecidableEq, Repr

/-- the slot `ConcurrentCacher._index` computes for a key -/
def slotOf (h : Nat → Nat) (r : KeyRep) : Nat := h r.text

/-- keys the inner cacher treats as one entry get one lock slot -/
def slotsRespectEq (h : Nat → Nat) (reps : List KeyRep) : Bool :=
  reps.all (fun a => reps.all (fun b => a.ident != b.ident || h a.text == h b.text))

/-- the key→index map of the transition system induced by the keys in use (slot of the first representative of the entry) -/
def idxOf (h : Nat → Nat) (reps : List KeyRep) (k : Nat) : Nat :=
  match reps.find? (fun r => r.ident == k) with
  | some r => h r.text
  | none => 0

/-- the expression by which MemoryCacher identifies an entry of its dict (every subscript and membership test): the key itself — so
`KeyRep.ident` is the key's own equality class (`==`/`hash`) -/
def modelMemoryKeyExpr : String := "key"

end Coba.C19
