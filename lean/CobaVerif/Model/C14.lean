/-
Model of `coba/environments/supervised.py` (`SupervisedSimulation.read`, both constructors),
`coba/pipes/rows.py` (`LabelRows` / `LabelDense` / `LabelSparse` / `DropOne` / `DropSparse`) and the
reward classes of `coba/primitives.py` (`L1Reward`, `BinaryReward`, `HammingReward`).
Import-free (core Lean only); the driver executes exactly these definitions.

Values.  A label atom is a Python `str` or a Python number (`int`/`float`/`bool`, modelled by the
exact rational it denotes, so `1 == 1.0 == True`).  `Categorical` is a `str` that carries its
levels.  A list-valued label is a list of atoms.

What is deliberately *not* modelled: the readers (CSV/ARFF/LibSVM/Manik text to rows, property
C12), the lazy row classes below `LabelRows` (C13) and the reservoir's random selection (C09):
the selection enters the model as the list of selected row positions.

The model mirrors the code *with the proposed fixes applied* (fixes/C14-*.diff):
`HammingReward` scores a scalar action as the singleton label set, accepts an empty true label
set, `LabelRows` normalises a negative dense index.  On the unchanged tree these inputs are
reported as known findings and excluded from the correspondence.
-/
import CobaVerif.Model.C12
import CobaVerif.Model.C09
import CobaVerif.Model.C13

namespace Coba.C14

inductive Err
  | typeError | indexError | zeroDivision
  /-- the input is outside what this model describes (e.g. label type `m` with a scalar label) -/
  | outOfModel
  /-- a reader (C12 model) or the reservoir (C09 model) failed; the harness sees the reader's own exception -/
  | upstream
  | keyError | valueError
deriving DecidableEq, Repr

/-- a label atom -/
inductive Val
  | str (s : String)
  | num (q : Rat)
deriving DecidableEq, Repr

def Val.isNum : Val → Bool
  | .num _ => true
  | .str _ => false

/-- Python `<` between two atoms of the same kind (strings by code point, numbers by value);
`false` across kinds (Python raises there, see `sortedSet`). -/
def Val.lt : Val → Val → Bool
  | .str a, .str b => decide (a < b)
  | .num a, .num b => decide (a < b)
  | _, _ => false

def Val.sameKind : Val → Val → Bool
  | .str _, .str _ => true
  | .num _, .num _ => true
  | _, _ => false

/-- a label as it reaches `SupervisedSimulation.read` -/
inductive Label
  | atom (v : Val)
  /-- `Categorical(s, levels)` -/
  | cat (s : String) (levels : List String)
  | list (vs : List Val)
deriving DecidableEq, Repr

inductive LType | c | r | m
deriving DecidableEq, Repr

/-- `delist = lambda l: l[0] if isinstance(l,list) else l` -/
def delist : Label → Except Err Val
  | .atom v => .ok v
  | .cat s _ => .ok (.str s)
  | .list [] => .error .indexError
  | .list (v :: _) => .ok v

/-! ### `sorted(set(values))` -/

/-- insert into a strictly ascending list, dropping an element that is already there -/
def insertSD (x : Val) : List Val → List Val
  | [] => [x]
  | y :: ys => if x = y then y :: ys else if Val.lt x y then x :: y :: ys else y :: insertSD x ys

def sortDedup (l : List Val) : List Val := l.foldr insertSD []

def homogeneous : List Val → Bool
  | [] => true
  | v :: vs => vs.all (Val.sameKind v)

/-- `sorted(set(l))`: Python raises `TypeError` when strings and numbers meet in one sort -/
def sortedSet (l : List Val) : Except Err (List Val) :=
  if homogeneous l then .ok (sortDedup l) else .error .typeError

/-! ### reward objects -/

/-- the argument a reward function is called with: one label, or a list of labels -/
inductive Action
  | one (v : Val)
  | many (vs : List Val)
deriving DecidableEq, Repr

inductive Reward
  /-- `L1Reward(label)` -/
  | l1 (y : Label)
  /-- `BinaryReward(label)` -/
  | binary (y : Label)
  /-- `HammingReward(label)` -/
  | hamming (y : Label)
deriving DecidableEq, Repr

/-- Python `argmax == action` -/
def labelEqAction : Label → Action → Bool
  | .atom v, .one a => v == a
  | .cat s _, .one a => a == .str s
  | .list vs, .many ws => vs == ws
  | _, _ => false

/-- the label list an action denotes for `HammingReward` (a scalar is the singleton set) -/
def Action.asList : Action → List Val
  | .one v => [v]
  | .many vs => vs

/-- `n_intersect`: members of the action that are `in` the true labels -/
def nIntersect (ys as : List Val) : Nat := (as.filter (fun a => ys.contains a)).length

/-- `n_union = len(argmax) + len(action) - n_intersect` -/
def nUnion (ys as : List Val) : Nat := ys.length + as.length - nIntersect ys as

def hammingValue (ys as : List Val) : Except Err Rat :=
  if nUnion ys as = 0 then .error .zeroDivision
  else .ok ((nIntersect ys as : Rat) / (nUnion ys as : Rat))

/-- `-abs(a - y)` -/
def negAbsDiff (a y : Rat) : Rat := if a - y < 0 then a - y else -(a - y)

/-- calling a reward object -/
def Reward.eval : Reward → Action → Except Err Rat
  | .l1 (.atom (.num y)), .one (.num a) => .ok (negAbsDiff a y)
  | .l1 _, _ => .error .typeError
  | .binary y, a => .ok (if labelEqAction y a then 1 else 0)
  | .hamming (.list ys), a => hammingValue ys a.asList
  | .hamming _, _ => .error .outOfModel

/-! ### `SupervisedSimulation.read` on (features, label) rows -/

structure Interaction (χ : Type) where
  context : χ
  actions : List Val
  reward : Reward
deriving DecidableEq, Repr

/-- `label_type = self._label_type or ("r" if isinstance(first_label,(int,float)) else "c")` -/
def inferType (given : Option LType) (first : Label) : LType :=
  match given with
  | some t => t
  | none =>
    match first with
    | .atom (.num _) => .r
    | _ => .c

/-- the label type `read` is told: the explicit `label_type` of the simulation, else the `tipe` an
already labelled source attached to its rows (`self._label_type or first.tipe`) -/
def resolveGiven (given tipe : Option LType) : Option LType :=
  match given with
  | some t => some t
  | none => tipe

/-- `[delist(l) for l in lbls]`, keeping the features beside each label -/
def delistAll {χ : Type} : List (χ × Label) → Except Err (List (χ × Val))
  | [] => .ok []
  | (x, l) :: rest =>
    match delist l with
    | .error e => .error e
    | .ok v =>
      match delistAll rest with
      | .error e => .error e
      | .ok r => .ok ((x, v) :: r)

/-- `chain(*lbls)` for list-valued labels -/
def flattenM : List Label → Except Err (List Val)
  | [] => .ok []
  | .list vs :: ls =>
    match flattenM ls with
    | .error e => .error e
    | .ok r => .ok (vs ++ r)
  | _ :: _ => .error .outOfModel

/-- a label as member of `set(labels)`: a list is unhashable (`TypeError`) -/
def labelKey : Label → Except Err Val
  | .atom v => .ok v
  | .cat s _ => .ok (.str s)
  | .list _ => .error .typeError

def labelKeys {χ : Type} : List (χ × Label) → Except Err (List Val)
  | [] => .ok []
  | (_, l) :: rest =>
    match labelKey l with
    | .error e => .error e
    | .ok v =>
      match labelKeys rest with
      | .error e => .error e
      | .ok r => .ok (v :: r)

/-- the `Categorical` branch (with fixes/C14-categorical-unused-levels.diff): the declared levels
in declared order, without the levels no example carries -/
def catActions (levels : List String) (keys : List Val) : List Val :=
  (levels.filter (fun l => keys.contains (.str l))).map Val.str

def read {χ : Type} (given : Option LType) (rows : List (χ × Label)) : Except Err (List (Interaction χ)) :=
  match rows with
  | [] => .ok []
  | (_, first) :: _ =>
    match inferType given first with
    | .r => .ok (rows.map fun r => ⟨r.1, [], .l1 r.2⟩)
    | .c =>
      match first with
      | .cat _ levels =>
        match labelKeys rows with
        | .error e => .error e
        | .ok keys => .ok (rows.map fun r => ⟨r.1, catActions levels keys, .binary r.2⟩)
      | _ =>
        match delistAll rows with
        | .error e => .error e
        | .ok drows =>
          match sortedSet (drows.map (·.2)) with
          | .error e => .error e
          | .ok acts => .ok (drows.map fun r => ⟨r.1, acts, .binary (.atom r.2)⟩)
    | .m =>
      match flattenM (rows.map (·.2)) with
      | .error e => .error e
      | .ok all =>
        match sortedSet all with
        | .error e => .error e
        | .ok acts => .ok (rows.map fun r => ⟨r.1, acts, .hamming r.2⟩)

/-! ### `LabelRows`: splitting a row into features and label -/

/-- Python index normalisation against a row of length `len` -/
def normIdx (ind : Int) (len : Nat) : Option Nat :=
  if 0 ≤ ind then some ind.toNat
  else if 0 ≤ ind + (len : Int) then some (ind + (len : Int)).toNat
  else none

/-- `LabelDense`: `label = row[ind]`, `feats = DropOne(row, ind)` =
`chain(islice(row,ind), islice(row,ind+1,None))` -/
def splitDense {γ : Type} (i : Nat) (row : List γ) : Except Err (List γ × γ) :=
  match row[i]? with
  | none => .error .indexError
  | some l => .ok (row.take i ++ row.drop (i + 1), l)

/-- `DropOne.headers`: the header names of the features, in feature order (the label's name is gone
and the names behind it move up by one) -/
def featureHeaders {η : Type} (i : Nat) (hdr : List η) : List η := hdr.take i ++ hdr.drop (i + 1)

/-- the value stored under a header name in a row with the given headers -/
def lookupNamed {η γ : Type} [DecidableEq η] (name : η) : List η → List γ → Except Err γ
  | [], _ => .error .keyError
  | h :: hs, vs =>
    if h = name then (match vs with | [] => .error .indexError | v :: _ => .ok v)
    else lookupNamed name hs vs.tail

/-- `DropOne.__getitem__(name)`: the feature stored under a header name (`KeyError` for the label's
name and for unknown names) -/
def featureByName {η γ : Type} [DecidableEq η] (i : Nat) (hdr : List η) (feats : List γ) (name : η) : Except Err γ :=
  lookupNamed name (featureHeaders i hdr) feats

def splitDenseAll {γ : Type} (i : Nat) : List (List γ) → Except Err (List (List γ × γ))
  | [] => .ok []
  | row :: rest =>
    match splitDense i row with
    | .error e => .error e
    | .ok p =>
      match splitDenseAll i rest with
      | .error e => .error e
      | .ok r => .ok (p :: r)

/-- `LabelSparse`: `label = row.get(key, 0)`, `feats = DropSparse(row, {key})` -/
def splitSparse {κ γ : Type} [DecidableEq κ] (key : κ) (zero : γ) (row : List (κ × γ)) : List (κ × γ) × γ :=
  (row.filter (fun kv => kv.1 ≠ key),
   match row.find? (fun kv => kv.1 = key) with
   | some kv => kv.2
   | none => zero)

/-! ### the whole pipeline: source → [Reservoir(take)] → [LabelRows] → read -/

/-- the rows at the selected positions, in selection order (what `Reservoir(take)` emits when its
random draws select `idxs`) -/
def select {ρ : Type} (idxs : List Nat) (rows : List ρ) : List ρ := idxs.filterMap (rows[·]?)

def applyTake {ρ : Type} (take : Option (List Nat)) (rows : List ρ) : List ρ :=
  match take with
  | none => rows
  | some idxs => select idxs rows

/-- `SupervisedSimulation(source, None, label_type, take)` / `SupervisedSimulation(X, Y, label_type)`:
the source yields (features, label) pairs -/
def simPairs {χ : Type} (given : Option LType) (take : Option (List Nat)) (rows : List (χ × Label)) :
    Except Err (List (Interaction χ)) :=
  read given (applyTake take rows)

/-- a dense cell is a label-shaped value; the label cell is used as it is -/
def simDense (given : Option LType) (take : Option (List Nat)) (ind : Int) (rows : List (List Label)) :
    Except Err (List (Interaction (List Label))) :=
  match applyTake take rows with
  | [] => .ok []
  | first :: rest =>
    match normIdx ind first.length with
    | none => .error .indexError
    | some i =>
      match splitDenseAll i (first :: rest) with
      | .error e => .error e
      | .ok prs => read given prs

def simSparse (given : Option LType) (take : Option (List Nat)) (key : Val) (rows : List (List (Val × Label))) :
    Except Err (List (Interaction (List (Val × Label)))) :=
  read given ((applyTake take rows).map (splitSparse key (Label.atom (.num 0))))

/-! ### `take` with the reservoir of the C09 model (seed 1 = the default of `Reservoir`) -/

/-- `Reservoir(k).filter(rows)`: Algorithm L of `Model/C09` from the generator state of
`CobaRandom(1)`; `steps` are the float quantities (skip count, slot) of its loop iterations -/
def sampleRows {ρ : Type} (k : Nat) (steps : List C09.Step) (rows : List ρ) : Except Err (List ρ) :=
  match C09.reservoir (some k) false (C05.normInt 1) steps rows with
  | .ok s => .ok s
  | .error _ => .error .upstream

def simPairsS {χ : Type} (given : Option LType) (k : Nat) (steps : List C09.Step) (rows : List (χ × Label)) :
    Except Err (List (Interaction χ)) :=
  match sampleRows k steps rows with
  | .error e => .error e
  | .ok s => read given s

def simDenseS (given : Option LType) (k : Nat) (steps : List C09.Step) (ind : Int) (rows : List (List Label)) :
    Except Err (List (Interaction (List Label))) :=
  match sampleRows k steps rows with
  | .error e => .error e
  | .ok s => simDense given none ind s

def simSparseS (given : Option LType) (k : Nat) (steps : List C09.Step) (key : Val) (rows : List (List (Val × Label))) :
    Except Err (List (Interaction (List (Val × Label)))) :=
  match sampleRows k steps rows with
  | .error e => .error e
  | .ok s => simSparse given none key s

/-! ### end to end: text → reader (C12 model) → LabelRows → read -/

open C12 (Text)

/-- a Python `str` given by its code points -/
def textStr (t : Text) : String := String.ofList (t.map Char.ofNat)

def textLabel (t : Text) : Label := .atom (.str (textStr t))

/-- `HeadRows(first)`: `dict(zip(headers, count()))` — a repeated header name maps to its last position -/
def headerIndex (hdr : List Text) (name : Text) : Option Nat :=
  match (hdr.reverse.idxOf? name) with
  | none => none
  | some j => some (hdr.length - 1 - j)

/-- `label_col`: an index, or a header name -/
inductive LabelCol
  | index (i : Int)
  | name (t : Text)

/-- `SupervisedSimulation(CsvSource(lines, has_header, delimiter=delim), label_col, label_type)` -/
def csvSim (delim : Nat) (hasHeader : Bool) (lc : LabelCol) (given : Option LType) (lines : List Text) :
    Except Err (List (Interaction (List Label))) :=
  match C12.csvReaderFix (C12.excel delim) hasHeader lines with
  | .error _ => .error .upstream
  | .ok (hdr, rows) =>
    let table := rows.map (·.map textLabel)
    match lc with
    | .index i => simDense given none i table
    | .name nm =>
      match rows with
      | [] => .ok []
      | _ :: _ =>
        match hdr with
        | none => .error .typeError          -- a list row has no `.headers`
        | some h =>
          match headerIndex h nm with
          | none => .error .keyError
          | some i => simDense given none (i : Int) table

/-- a LibSVM row as the pair `SupervisedSimulation` receives: the features stay tokens (`int`/`float`
of a token is CPython's), the label is the list of label strings -/
def svmPair (r : C12.SvmRow) : List (Text × Text) × Label := (r.feats, .list (r.labels.map fun l => Val.str (textStr l)))

/-- `SupervisedSimulation(LibSvmSource(lines), None, label_type)` -/
def libsvmSim (given : Option LType) (lines : List Text) : Except Err (List (Interaction (List (Text × Text)))) :=
  match C12.libsvmRead lines with
  | .error _ => .error .upstream
  | .ok rows => read given (rows.map svmPair)

/-- `SupervisedSimulation(ManikSource(lines), None, label_type)` -/
def manikSim (given : Option LType) (lines : List Text) : Except Err (List (Interaction (List (Text × Text)))) :=
  match C12.manikRead lines with
  | .error _ => .error .upstream
  | .ok rows => read given (rows.map svmPair)

/-- a decimal literal `[-]digits[.digits]` as the number `float(tok)` denotes when it is exactly
representable (the harness writes small integers and dyadic fractions); other literals: `none` -/
def parseDecimal (tok : Text) : Option Rat :=
  let (neg, body) := match tok with
    | 45 :: r => (true, r)
    | r => (false, r)
  let ip := body.takeWhile C12.isDigit
  let rest := body.dropWhile C12.isDigit
  let mk (n : Nat) (d : Nat) : Rat := (if neg then -(n : Rat) else (n : Rat)) / (d : Rat)
  match rest with
  | [] => if ip = [] then none else some (mk (C12.digitsVal ip).toNat 1)
  | 46 :: fp =>
    if (ip = [] ∧ fp = []) ∨ !(fp.all C12.isDigit) then none
    else some (mk ((C12.digitsVal (ip ++ fp)).toNat) (10 ^ fp.length))
  | _ => none

/-- an ARFF cell as a label-shaped value; a missing value or an inexact literal is outside the model -/
def cellLabel : C12.Cell → Except Err Label
  | .num tok => match parseDecimal tok with | some q => .ok (.atom (.num q)) | none => .error .outOfModel
  | .str s => .ok (textLabel s)
  | .cat s levels => .ok (.cat (textStr s) (levels.map textStr))
  | .missing => .error .outOfModel

def cellLabels : List C12.Cell → Except Err (List Label)
  | [] => .ok []
  | c :: cs =>
    match cellLabel c with
    | .error e => .error e
    | .ok l => match cellLabels cs with | .error e => .error e | .ok r => .ok (l :: r)

def rowsLabels : List (List C12.Cell) → Except Err (List (List Label))
  | [] => .ok []
  | r :: rs =>
    match cellLabels r with
    | .error e => .error e
    | .ok l => match rowsLabels rs with | .error e => .error e | .ok t => .ok (l :: t)

def encodeRows (encs : List C12.Enc) : List (List Text) → Except Err (List (List C12.Cell))
  | [] => .ok []
  | r :: rs =>
    match C12.encodeRow encs r with
    | .error _ => .error .upstream
    | .ok c => match encodeRows encs rs with | .error e => .error e | .ok t => .ok (c :: t)

/-- dense ARFF, the reader's simple path: attribute lines → names and encoders (`ArffAttrReader`),
data lines → raw rows (`ArffLineReader`), encoders applied, then `LabelRows` and `read` -/
def arffDenseSim (lc : LabelCol) (given : Option LType) (attrLines dataLines : List Text) :
    Except Err (List (Interaction (List Label))) :=
  match C12.arffAttrs true [] attrLines with
  | .error _ => .error .upstream
  | .ok attrs =>
    match C12.arffLines attrs.length C12.ALR.init dataLines with
    | .error _ => .error .upstream
    | .ok raws =>
      match encodeRows (attrs.map (·.2)) raws with
      | .error e => .error e
      | .ok cells =>
        match rowsLabels cells with
        | .error e => .error e
        | .ok table =>
          match lc with
          | .index i => simDense given none i table
          | .name nm =>
            match table with
            | [] => .ok []
            | _ :: _ =>
              match headerIndex (attrs.map (·.1)) nm with
              | none => .error .keyError
              | some i => simDense given none (i : Int) table

/-! ### the lazy row object the learner receives as context (C13's model of the row classes) -/

/-- a table cell as a value of the C13 model (strings, integers, Categoricals; other cells have no counterpart there) -/
def toC13 : Label → Option C13.Val
  | .atom (.str s) => some (.str s)
  | .atom (.num q) => if q.den = 1 then some (.int q.num) else none
  | .cat s lv => some (.cat s lv)
  | .list _ => none

def rowC13 : List Label → Option (List C13.Val)
  | [] => some []
  | c :: cs => match toC13 c, rowC13 cs with | some v, some vs => some (v :: vs) | _, _ => none

/-- a row of a list-backed table as the reader yields it: a plain list (`ListSource`, `CsvReader` without header)
or `HeadDense(list, headers)` (`CsvReader` with header) -/
def lazyRow (hdr : Option (List String)) (vals : List C13.Val) : C13.DRow :=
  match hdr with
  | none => .plain vals
  | some ns => .head (.plain vals) (C13.zipNames ns)

/-- `LabelRows` wraps it in `LabelDense(row, i, tipe)`; the context of the interaction is its `.feats` = `DropOne(row, i)` -/
def lazyContext (hdr : Option (List String)) (vals : List C13.Val) (i : Nat) : C13.DRow :=
  .dropOne (lazyRow hdr vals) i

/-! ## Phase 4: `take` between reader and `LabelRows` inside the model, `label_col` by header name, whole-file ARFF (dense and sparse) -/

/-- `Reservoir(take)` as the pipeline stage between the reader and `LabelRows`; `none` = no `take` -/
def sampleOpt {ρ : Type} (res : Option (Nat × List C09.Step)) (rows : List ρ) : Except Err (List ρ) :=
  match res with
  | none => .ok rows
  | some (k, steps) => sampleRows k steps rows

/-- `LabelRows(label_col)` + `read` over a dense table whose rows may carry headers: an index is used as it is,
a header name is looked up in the first row's headers (`first.headers[label]`) -/
def denseByCol (hdr : Option (List Text)) (lc : LabelCol) (given : Option LType) (table : List (List Label)) :
    Except Err (List (Interaction (List Label))) :=
  match lc with
  | .index i => simDense given none i table
  | .name nm =>
    match table with
    | [] => .ok []
    | _ :: _ =>
      match hdr with
      | none => .error .typeError
      | some h =>
        match headerIndex h nm with
        | none => .error .keyError
        | some i => simDense given none (i : Int) table

/-- what follows the CSV reader: `Reservoir(take)`, then `LabelRows` / `read` over the sampled rows -/
def csvTail (hdr : Option (List Text)) (lc : LabelCol) (given : Option LType) (res : Option (Nat × List C09.Step))
    (rows : List (List Text)) : Except Err (List (Interaction (List Label))) :=
  match sampleOpt res rows with
  | .error e => .error e
  | .ok s => denseByCol hdr lc given (s.map (·.map textLabel))

/-- `SupervisedSimulation(CsvSource(lines, has_header, delimiter=delim), label_col, label_type, take)` -/
def csvSimT (delim : Nat) (hasHeader : Bool) (lc : LabelCol) (given : Option LType) (res : Option (Nat × List C09.Step))
    (lines : List Text) : Except Err (List (Interaction (List Label))) :=
  match C12.csvReaderFix (C12.excel delim) hasHeader lines with
  | .error _ => .error .upstream
  | .ok (hdr, rows) => csvTail hdr lc given res rows

/-- `SupervisedSimulation(LibSvmSource(lines), None, label_type, take)` -/
def libsvmSimT (given : Option LType) (res : Option (Nat × List C09.Step)) (lines : List Text) :
    Except Err (List (Interaction (List (Text × Text)))) :=
  match C12.libsvmRead lines with
  | .error _ => .error .upstream
  | .ok rows =>
    match sampleOpt res rows with
    | .error e => .error e
    | .ok s => read given (s.map svmPair)

/-- `SupervisedSimulation(ManikSource(lines), None, label_type, take)` -/
def manikSimT (given : Option LType) (res : Option (Nat × List C09.Step)) (lines : List Text) :
    Except Err (List (Interaction (List (Text × Text)))) :=
  match C12.manikRead lines with
  | .error _ => .error .upstream
  | .ok rows =>
    match sampleOpt res rows with
    | .error e => .error e
    | .ok s => read given (s.map svmPair)

/-- the items of a sparse ARFF row (header name ↦ encoded cell) as key/value pairs of the simulation -/
def sparseItemLabels : List (Text × C12.Cell) → Except Err (List (Val × Label))
  | [] => .ok []
  | (k, c) :: r =>
    match cellLabel c with
    | .error e => .error e
    | .ok l => match sparseItemLabels r with | .error e => .error e | .ok t => .ok ((Val.str (textStr k), l) :: t)

def sparseTable : List (List (Text × C12.Cell)) → Except Err (List (List (Val × Label)))
  | [] => .ok []
  | r :: rs =>
    match sparseItemLabels r with
    | .error e => .error e
    | .ok l => match sparseTable rs with | .error e => .error e | .ok t => .ok (l :: t)

/-- the key `LabelRows` hands to `LabelSparse` for header-keyed sparse rows: a header name as it is, an index is
translated to its header (`first._inv.get(label, label)`: an index without a header stays the number) -/
def sparseKey (names : List Text) : LabelCol → Val
  | .name nm => .str (textStr nm)
  | .index i =>
    if i < 0 then .num (i : Rat)
    else match names[i.toNat]? with
      | some nm => .str (textStr nm)
      | none => .num (i : Rat)

/-- `SupervisedSimulation(ArffSource(lines), label_col, label_type, take)`: the whole file through `C12.arffRead`
(framing, `@data`, dense or sparse decided by the first data line, encoders), then `Reservoir`, `LabelRows`, `read` -/
inductive ArffOut
  | dense (r : Except Err (List (Interaction (List Label))))
  | sparse (r : Except Err (List (Interaction (List (Val × Label)))))

def arffFileSim (lc : LabelCol) (given : Option LType) (res : Option (Nat × List C09.Step)) (lines : List Text) : ArffOut :=
  match C12.arffRead lines with
  | .error _ => .dense (.error .upstream)
  | .ok .empty => .dense (.ok [])
  | .ok (.dense names rows) =>
    .dense (match sampleOpt res rows with
      | .error e => .error e
      | .ok s =>
        match rowsLabels (s.map (·.cells)) with
        | .error e => .error e
        | .ok table => denseByCol (some names) lc given table)
  | .ok (.sparse names rows) =>
    .sparse (match sampleOpt res rows with
      | .error e => .error e
      | .ok s =>
        match sparseTable (s.map (·.items)) with
        | .error e => .error e
        | .ok table => simSparse given none (sparseKey names lc) table)

/-! ### vocabulary used by the property statements -/

/-- the label type `read` works with: given, or inferred from the first label (`none` on no rows) -/
def typeOf {χ : Type} (given : Option LType) (rows : List (χ × Label)) : Option LType :=
  match rows with
  | [] => none
  | r :: _ => some (inferType given r.2)

/-- the levels of the first label when it is a `Categorical` -/
def firstLevels {χ : Type} (rows : List (χ × Label)) : Option (List String) :=
  match rows with
  | (_, .cat _ levels) :: _ => some levels
  | _ => none

/-- ascending in Python's `<` (hence free of duplicates) -/
def Sorted (l : List Val) : Prop := List.Pairwise (fun a b => Val.lt a b = true) l

/-! ## Phase 5: the constructor's argument table and `read`'s label-type / reward dispatch as data

These tables say, as plain data, what the definitions above assume about `SupervisedSimulation.__init__` and the
`if`-chain of `SupervisedSimulation.read`; `Generated/C14Supervised.lean` holds the same tables as extracted from the
current source with Python's `ast` (harness `pre_build`), and `Props/C14.lean` proves the two equal. -/

/-- `label_type.lower()` on the literals of `Literal["c","r","m"]`, either case (the driver parses the harness' literal with it) -/
def parseLType : String → Option LType
  | "c" => some .c | "C" => some .c
  | "r" => some .r | "R" => some .r
  | "m" => some .m | "M" => some .m
  | _ => none

/-- the Python class of a reward object -/
def Reward.className : Reward → String
  | .l1 _ => "L1Reward" | .binary _ => "BinaryReward" | .hamming _ => "HammingReward"

/-- the reward class `read` instantiates, by label type -/
def rewardClassOf : LType → String
  | .r => "L1Reward" | .c => "BinaryReward" | .m => "HammingReward"

/-- the reward constructor `read` binds, by label type and "the first label is a `Categorical`": the plain classification
branch delists the label first (`lambda l: BinaryReward(delist(l))` = `.binary (.atom v)` with `delist l = v`) -/
def rewardCtorOf : LType → Bool → String
  | .r, _ => "L1Reward"
  | .c, true => "BinaryReward"
  | .c, false => "BinaryReward(delist)"
  | .m, _ => "HammingReward"

/-- how `read` computes the action list, by label type and "the first label is a `Categorical`":
`[]`; the declared levels filtered to the labels present (`catActions`); `sorted(set(map(delist,lbls)))`;
`sorted(set(chain(*lbls)))` (`sortedSet` of `delistAll` / `flattenM`) -/
def actionsKindOf : LType → Bool → String
  | .r, _ => "empty"
  | .c, true => "levels&present"
  | .c, false => "sorted&set&delist"
  | .m, _ => "sorted&set&chain"

def labelTypeLiterals : List String := ["r", "c", "m", "R", "C", "M"]

/-- one row per label-type literal and first-label kind: (literal, first label is Categorical, reward class, action computation) -/
def dispatchTable : List (String × Bool × String × String) :=
  labelTypeLiterals.flatMap fun lit => [false, true].filterMap fun cat =>
    (parseLType lit).map fun t => (lit, cat, rewardCtorOf t cat, actionsKindOf t cat)

/-- `isinstance(first_label, (int,float))`: the Python types the model's `.atom (.num _)` stands for (`bool` is an `int`) -/
def inferNumericTypes : List String := ["float", "int"]

/-- where the label type comes from, in order of precedence: rows of an already labelled source carry `tipe`
(`self._label_type or first.tipe`), other rows do not (`self._label_type or <inferred>`); `resolveGiven` + `inferType` -/
def typeSources (hasTipe : Bool) : List String := if hasTipe then ["explicit", "tipe"] else ["explicit", "inferred"]

/-- the argument table of the source overload: (name, position, default when absent); `None` = the stage is left out
(`sampleOpt none`, no `LabelRows`: the source yields pairs) resp. the type is resolved by `typeSources` -/
def ctorSourceArgs : List (String × Nat × String) :=
  [("source", 0, "<required>"), ("label_col", 1, "None"), ("label_type", 2, "None"), ("take", 3, "None")]

/-- the argument table of the (X,Y) overload -/
def ctorXYArgs : List (String × Nat × String) := [("X", 0, "<required>"), ("Y", 1, "<required>"), ("label_type", 2, "None")]

/-- the stages joined behind the source, by class name: (joined when this argument is not None, class, its first argument).
In the model `Reservoir(take)` sits before `LabelRows(label_col, ·)` (`csvSimT` / `arffFileSim` / `simDenseS`); the other order
yields the same interactions (the reservoir selects by position) and is not distinguished -/
def pipelineJoins : List (String × String × List String) :=
  [("label_col", "LabelRows", ["label_col"]), ("take", "Reservoir", ["take"])]

/-- what an interaction is built from, for rows of a labelled source (`.feats` / `.label`) and for pairs (`[0]` / `[1]`):
the context is the row's features, the actions are the shared list, the reward object is built from the row's label -/
def yieldTable : List (String × String) :=
  [("actions", "actions"), ("context", "row.feats"), ("context", "row[0]"), ("rewards", "reward(row.label)"), ("rewards", "reward(row[1])")]

end Coba.C14
