/-
C02 — Interrupted experiments resume without losing or repeating work.

Model of the resume protocol of `Experiment.run(result_file)`.  Import-free (core Lean only).

  coba/pipes/sinks.py    DiskSink(batch=1)      `serialize`   one line per record, `line + "\n"`
  coba/pipes/sources.py  DiskSource             `splitNL`, `lines`   (readline, rstrip, strip, filter(None,…))
  coba/results/core.py   TransactionDecode      `decodeLines`, `decodeAll`  (json.loads per line, version first)
                         TransactionResult      `bodies`       (per-id folding of the records)
  coba/experiments/process.py MakeTasks         `mkAux`, `makeTasks`, `done`
  coba/experiments/core.py run(), restore branch `repair`, `restore`, `preamble`, `finish`, `resume`

Bytes are `Nat`s.  A record text is abstract at the level of the protocol (`Codec`), but the
JSON-array property the protocol relies on — *a proper prefix of a record text never decodes* —
is proved for the bracket-depth scanner `balanced` below, which is what the concrete codec of the
driver (`tableCodec`) uses, and which the harness compares with `json.loads` on every prefix of
every real record.

`Flags` selects between the code as it is at the pinned commit (`Flags.cur`) and the code with
the proposed repairs (`Flags.fixed`, fixes/C02-*.diff).  The harness detects behaviourally which
repairs the tree under test contains and asks the driver for that variant.
-/
namespace Coba.C02

abbrev Bytes := List Nat

/-- `"\n"` -/
def NL : Nat := 10

/-- a record text contains no raw newline (JSON escapes control characters) -/
def NoNL (r : Bytes) : Prop := NL ∉ r

instance (r : Bytes) : Decidable (NoNL r) := by unfold NoNL; infer_instance

/-! ### DiskSink / DiskSource -/

/-- DiskSink: every record is written as `line + "\n"` -/
def serialize : List Bytes → Bytes
  | [] => []
  | r :: rs => r ++ NL :: serialize rs

/-- split at newlines: (complete lines, unterminated tail) -/
def splitNL : Bytes → List Bytes × Bytes
  | [] => ([], [])
  | b :: bs =>
    let p := splitNL bs
    if b = NL then ([] :: p.1, p.2)
    else match p.1 with
      | [] => ([], b :: p.2)
      | l :: ls => ((b :: l) :: ls, p.2)

/-- what TransactionDecode sees: every line `readline` returns (the unterminated tail is the
last one), stripped, empty ones dropped -/
def lines (file : Bytes) : List Bytes :=
  ((splitNL file).1 ++ [(splitNL file).2]).filter (fun l => !l.isEmpty)

/-! ### the JSON-array scanner (bracket depth outside strings) -/

structure St where
  depth : Nat
  inStr : Bool
  esc : Bool
  deriving DecidableEq, Repr

/-- 34 `"`, 92 `\`, 91 `[`, 93 `]`, 123 `{`, 125 `}` -/
def step (s : St) (b : Nat) : St :=
  if s.inStr then
    if s.esc then { s with esc := false }
    else if b = 92 then { s with esc := true }
    else if b = 34 then { s with inStr := false }
    else s
  else if b = 34 then { s with inStr := true }
  else if b = 91 ∨ b = 123 then { s with depth := s.depth + 1 }
  else if b = 93 ∨ b = 125 then { s with depth := s.depth - 1 }
  else s

/-- the bracket opened before `s` is closed by the LAST byte of the text and not earlier -/
def closes : St → Bytes → Bool
  | _, [] => false
  | s, b :: bs => if (step s b).depth = 0 then bs.isEmpty else closes (step s b) bs

/-- `[` … matching `]` and nothing after it -/
def balanced : Bytes → Bool
  | [] => false
  | b :: bs => b = 91 && closes ⟨1, false, false⟩ bs

/-! ### records -/

inductive Key where
  | ver | exp
  | env (i : Nat) | lrn (i : Nat) | val (i : Nat)
  | int (e l v : Nat)
  deriving DecidableEq, Repr

/-- a transaction record: its id, the number of result rows it carries (only meaningful for
`I` records: `len(_packed[...])`, 0 for `{"_packed":{}}`) and an identifier of its payload -/
structure Rec where
  key : Key
  rows : Nat
  body : Nat
  deriving DecidableEq, Repr

structure Codec where
  enc : Rec → Bytes
  dec : Bytes → Option Rec

/-- json.loads on every line; any failure raises -/
def decodeLines (c : Codec) : List Bytes → Option (List Rec)
  | [] => some []
  | l :: ls =>
    match c.dec l, decodeLines c ls with
    | some r, some rs => some (r :: rs)
    | _, _ => none

/-- TransactionDecode + TransactionResult on a file: `none` = raises (undecodable line, or no
line at all: `next()` on the empty iterator, or a first line that is not the version line) -/
def decodeAll (c : Codec) (file : Bytes) : Option (List Rec) :=
  match decodeLines c (lines file) with
  | some (r :: rs) => if r.key = Key.ver then some (r :: rs) else none
  | _ => none

/-- TransactionResult folds the records per id (`update` for E/L/V, last one wins for I and
the experiment line): the Result is a function of the records carried by each id, in order -/
def bodies (L : List Rec) (k : Key) : List Rec := L.filter (fun r => r.key = k)

/-! ### MakeTasks -/

inductive Task where
  | penv (i : Nat) | plrn (i : Nat) | pval (i : Nat)
  | eval (e l v : Nat)
  deriving DecidableEq, Repr

def Task.key : Task → Key
  | .penv i => .env i
  | .plrn i => .lrn i
  | .pval i => .val i
  | .eval e l v => .int e l v

def Task.isEval : Task → Bool
  | .eval .. => true
  | _ => false

/-- `eid in restored_envs` / … / `(eid,lid,vid) in restored_outs`.  The restored sets are read
from the *tables* of the restored Result, so an `I` record without rows is invisible. -/
def done (fx : Bool) (K : List Rec) (t : Task) : Bool :=
  K.any (fun r => decide (r.key = t.key) && (fx || !t.isEval || decide (0 < r.rows)))

/-- `if obj not in d: d[obj] = len(d)` -/
def ins (E : List Nat) (x : Nat) : List Nat := if E.contains x then E else E ++ [x]

/-- the loop of `MakeTasks.read`: `E L V` are the dicts `envs lrns vals` (objects in order of
first sight; the id of an object is its position) -/
def mkAux (fx : Bool) (K : List Rec) : List (Nat × Nat × Nat) → List Nat → List Nat → List Nat → List Task
  | [], _, _, _ => []
  | (e, l, v) :: ts, E, L, V =>
    let E' := ins E e
    let L' := ins L l
    let V' := ins V v
    let t1 := if !E.contains e && !done fx K (.penv E.length) then [Task.penv E.length] else []
    let t2 := if !L.contains l && !done fx K (.plrn L.length) then [Task.plrn L.length] else []
    let t3 := if !V.contains v && !done fx K (.pval V.length) then [Task.pval V.length] else []
    let t := Task.eval (E'.idxOf e) (L'.idxOf l) (V'.idxOf v)
    let t4 := if !done fx K t then [t] else []
    t1 ++ (t2 ++ (t3 ++ (t4 ++ mkAux fx K ts E' L' V')))

def makeTasks (fx : Bool) (K : List Rec) (triples : List (Nat × Nat × Nat)) : List Task :=
  mkAux fx K triples [] [] []

/-! ### Experiment.run, restore branch -/

structure Flags where
  /-- fixes/C02-torn-tail.diff: drop/terminate an unterminated final line; an empty file is a fresh start -/
  repairPlain : Bool
  /-- fixes/C02-experiment-preamble.diff: write the experiment line when the restored log lacks it -/
  preambleFix : Bool
  /-- fixes/C02-gz-torn-member.diff: drop an incomplete trailing gzip member -/
  repairGz : Bool
  /-- fixes/C02-finished-triples.diff: the restored Result also names the recorded evaluations that have no rows -/
  finishedFix : Bool
  deriving DecidableEq, Repr

def Flags.cur : Flags := ⟨false, false, false, false⟩
/-- the three repairs that are committed (d8b22dd, be6d326, a0e1f54) -/
def Flags.committed : Flags := ⟨true, true, true, false⟩
def Flags.fixed : Flags := ⟨true, true, true, true⟩

/-- `_drop_torn_tail` for plain files:
`tail = data[data.rfind(b'\n')+1:]`; nothing to do for an empty tail; a tail that decodes gets
its newline; anything else is cut off -/
def repair (c : Codec) (file : Bytes) : Bytes :=
  let p := splitNL file
  if p.2.isEmpty then file
  else if (c.dec p.2).isSome then file ++ [NL]
  else serialize p.1

structure Restore where
  /-- the file after the repair step: what the new records are appended to -/
  file1 : Bytes
  /-- the restored records; `[]` = nothing restored (fresh start) -/
  K : List Rec
  deriving Repr

/-- `file = none`: the result file does not exist.  Result `none`: `Result.from_file` raises. -/
def restore (fl : Flags) (c : Codec) : Option Bytes → Option Restore
  | none => some ⟨[], []⟩
  | some file =>
    let file1 := if fl.repairPlain then repair c file else file
    if fl.repairPlain && file1.isEmpty then some ⟨[], []⟩
    else match decodeAll c file1 with
      | some K => some ⟨file1, K⟩
      | none => none

/-- what a `.gz` result file decompresses to when it consists of `j` complete members followed
(`torn`) by an incomplete one: reading a truncated member raises (zlib is trusted for this);
the repaired code truncates the file to the complete members first -/
def gzView (fl : Flags) (texts : List Bytes) (j : Nat) (torn : Bool) : Option Bytes :=
  if torn && !fl.repairGz then none else some (serialize (texts.take j))

/-! ### `.gz` result files at byte level

`DiskSink(batch=1)` reopens the file for every record, so every record is its own gzip member (and a run that ends leaves one
member with an empty payload).  A member is abstract (zlib is not modelled); what the protocol needs from zlib is stated as
the three laws of `MLaws` about a scanner `scan` that recognises ONE complete member at the front of a byte string. -/

structure Member where
  /-- what the member decompresses to -/
  payload : Bytes
  /-- the compressed bytes in the file -/
  bytes : Bytes
  deriving DecidableEq, Repr

def flatM : List Member → Bytes
  | [] => []
  | m :: ms => m.bytes ++ flatM ms

def payloadsM : List Member → Bytes
  | [] => []
  | m :: ms => m.payload ++ payloadsM ms

/-- `zlib.decompressobj(31)` fed from the start of a member: `some (payload, length)` when a complete member is at the
front (`eof`; the rest is `unused_data`), `none` when the data ends before the member does or is no member -/
abbrev MScan := Bytes → Option (Bytes × Nat)

structure MLaws (scan : MScan) (ms : List Member) : Prop where
  /-- a complete member is recognised whatever follows it -/
  complete : ∀ m ∈ ms, ∀ rest, scan (m.bytes ++ rest) = some (m.payload, m.bytes.length)
  /-- a truncated member is never taken for a complete one -/
  torn : ∀ m ∈ ms, ∀ q, q <+: m.bytes → q ≠ m.bytes → scan q = none
  ne : ∀ m ∈ ms, m.bytes ≠ []

/-- the member scan of `_drop_torn_tail`: `good` = offset after the last complete member (the 4096-byte chunking of the
real loop is below the level of this model) -/
def scanLoop (scan : MScan) : Nat → Bytes → Nat → Nat
  | 0, _, pos => pos
  | f + 1, data, pos =>
    if data.isEmpty then pos
    else match scan data with
      | some (_, n) => if n = 0 then pos else scanLoop scan f (data.drop n) (pos + n)
      | none => pos

def memberScan (scan : MScan) (data : Bytes) : Nat := scanLoop scan (data.length + 1) data 0

/-- `f.truncate(good)` -/
def gzRepair (scan : MScan) (data : Bytes) : Bytes := data.take (memberScan scan data)

/-- `gzip.open(path).read()`: the payloads of all members; `none` = raises (EOFError / BadGzipFile) when the data does not
end with a complete member -/
def gunzipLoop (scan : MScan) : Nat → Bytes → Option Bytes
  | 0, data => if data.isEmpty then some [] else none
  | f + 1, data =>
    if data.isEmpty then some []
    else match scan data with
      | some (p, n) => if n = 0 then none else (gunzipLoop scan f (data.drop n)).map (fun rest => p ++ rest)
      | none => none

def gunzip (scan : MScan) (data : Bytes) : Option Bytes := gunzipLoop scan (data.length + 1) data

/-- the text `Result.from_file` sees for a `.gz` file -/
def gzText (fl : Flags) (scan : MScan) (data : Bytes) : Option Bytes :=
  gunzip scan (if fl.repairGz then gzRepair scan data else data)

/-- the members of a file hold the log `L`: one member per record line, members with an empty payload anywhere -/
inductive PayloadLog (c : Codec) : List Member → List Rec → Prop
  | nil : PayloadLog c [] []
  | line {m : Member} {ms : List Member} {r : Rec} {L : List Rec} :
      m.payload = c.enc r ++ [NL] → PayloadLog c ms L → PayloadLog c (m :: ms) (r :: L)
  | empty {m : Member} {ms : List Member} {L : List Rec} :
      m.payload = [] → PayloadLog c ms L → PayloadLog c (m :: ms) L

/-- the concrete scanner of the driver: a table of the members that occur in the real files -/
def tableScan (tbl : List Member) (data : Bytes) : Option (Bytes × Nat) :=
  (tbl.find? (fun m => m.bytes.isPrefixOf data)).map (fun m => (m.payload, m.bytes.length))

/-- run-time checkable condition under which `tableScan` satisfies `MLaws`: no member empty, none a prefix of another -/
def memberTableOK (tbl : List Member) : Bool :=
  tbl.all (fun m => !m.bytes.isEmpty) &&
  tbl.all (fun a => tbl.all (fun b => decide (a = b) || !(a.bytes.isPrefixOf b.bytes)))

/-! ### which files are gzip files

DiskSink (`__enter__`), DiskSource (`read`) and `_drop_torn_tail` each decide from the file NAME whether the file is gzip.
The three source expressions are re-extracted on every run into `Generated/C02GzPredicates.lean`. -/

inductive GzPred where
  /-- `"lit" in name` -/
  | contains (lit : Bytes)
  /-- `name.endswith("lit")` -/
  | endsWith (lit : Bytes)
  deriving DecidableEq, Repr

def isInfixB (lit : Bytes) : Bytes → Bool
  | [] => lit.isEmpty
  | c :: cs => lit.isPrefixOf (c :: cs) || isInfixB lit cs

def GzPred.eval : GzPred → Bytes → Bool
  | .contains lit, name => isInfixB lit name
  | .endsWith lit, name => lit.reverse.isPrefixOf name.reverse

/-- the name shapes the harness generates (UTF-8): r.log, r.log.gz, r.gz.bak, r.gzip, a.gz.d/r.log, "r s é.log",
"r s é.log.gz", out.d/r.txt, r.gz -/
def nameShapes : List Bytes :=
  [[114,46,108,111,103], [114,46,108,111,103,46,103,122], [114,46,103,122,46,98,97,107], [114,46,103,122,105,112],
   [97,46,103,122,46,100,47,114,46,108,111,103], [114,32,115,32,195,169,46,108,111,103],
   [114,32,115,32,195,169,46,108,111,103,46,103,122], [111,117,116,46,100,47,114,46,116,120,116], [114,46,103,122]]

/-- records written before the task outputs: version + experiment on a fresh start, nothing
when restoring (repaired: the experiment line when the restored log does not have one) -/
def preamble (fl : Flags) (ver exp : Rec) (K : List Rec) : List Rec :=
  if K.isEmpty then [ver, exp]
  else if fl.preambleFix && !K.any (fun r => decide (r.key = Key.exp)) then [exp]
  else []

structure Outcome where
  restored : Restore
  tasks : List Task
  appended : List Rec
  file : Bytes
  /-- decoded final file (`Pipes.join(source,decode,result).read()`); `none` = raises -/
  final : Option (List Rec)
  deriving Repr

/-- DiskSink appends `pre ++ app` (one line each) to the file; then the file is read back -/
def finish (c : Codec) (R : Restore) (tasks : List Task) (pre app : List Rec) : Outcome :=
  let file' := R.file1 ++ serialize ((pre ++ app).map c.enc)
  { restored := R, tasks := tasks, appended := pre ++ app, file := file', final := decodeAll c file' }

/-- an experiment as the resume protocol sees it -/
structure World where
  c : Codec
  ver : Rec
  exp : Rec
  /-- the record a task produces (`none`: the task raises and only logs) -/
  out : Task → Option Rec
  /-- environment/learner/evaluator objects of the triples, in the order given -/
  triples : List (Nat × Nat × Nat)

/-- everything an uninterrupted run writes -/
def World.universe (w : World) : List Rec :=
  w.ver :: w.exp :: (makeTasks false [] w.triples).filterMap w.out

/-- the run in task order (single process); `none` = restoring raises -/
def resume (fl : Flags) (w : World) (file : Option Bytes) : Option Outcome :=
  match restore fl w.c file with
  | none => none
  | some R =>
    let tasks := makeTasks fl.finishedFix R.K w.triples
    some (finish w.c R tasks (preamble fl w.ver w.exp R.K) (tasks.filterMap w.out))

/-! ### hypotheses of the theorems -/

/-- what the protocol needs from the JSON text of the records in `U`: decoding inverts encoding,
no raw newline, not empty, and *no proper prefix of a record text decodes* (for JSON arrays this
is the bracket-depth argument, `balanced_prefix_free`) -/
structure Codec.Lawful (c : Codec) (U : List Rec) : Prop where
  dec_enc : ∀ r ∈ U, c.dec (c.enc r) = some r
  noNL : ∀ r ∈ U, NoNL (c.enc r)
  ne : ∀ r ∈ U, c.enc r ≠ []
  torn : ∀ r ∈ U, ∀ p, p <+: c.enc r → p ≠ c.enc r → c.dec p = none

structure World.OK (w : World) : Prop where
  ver_key : w.ver.key = Key.ver
  exp_key : w.exp.key = Key.exp
  /-- a task writes the record carrying its own id -/
  out_key : ∀ t r, w.out t = some r → r.key = t.key
  codec : w.c.Lawful w.universe
  /-- the experiment lists every (environment, learner, evaluator) triple once -/
  triples_nodup : w.triples.Nodup

/-! ### spec-side predicates -/

/-- the file holding the log `L` -/
def logFile (w : World) (L : List Rec) : Bytes := serialize (L.map w.c.enc)

/-- what a run that is killed after `k` bytes of the log `L` reached the disk leaves behind -/
def cut (w : World) (L : List Rec) (k : Nat) : Bytes := (logFile w L).take k

def keysNodup (L : List Rec) : Bool := (L.map (·.key)).Nodup

/-- a log some (possibly repeatedly interrupted and resumed) run of `w` can have written -/
def ValidLog (w : World) (L : List Rec) : Prop :=
  (L.map (·.key)).Nodup ∧ (∀ r ∈ L, r ∈ w.universe) ∧ (∀ r, L.head? = some r → r = w.ver)

/-- `F` is a log one completed resumption from the cut `k` of the log `L` can return (any arrival order of the task outputs) -/
def ResumeStep (fl : Flags) (w : World) (L : List Rec) (k : Nat) (F : List Rec) : Prop :=
  ∃ R app, restore fl w.c (some (cut w L k)) = some R ∧
    app.Perm ((makeTasks fl.finishedFix R.K w.triples).filterMap w.out) ∧
    (finish w.c R (makeTasks fl.finishedFix R.K w.triples) (preamble fl w.ver w.exp R.K) app).final = some F

/-- interruptions in a row: the run on `L` is killed after `k₁` bytes and resumed; the resumed run (which would have written
`M`) is itself killed after `k₂` bytes of `M` and resumed; … ; the last resumption completes with the log `F` -/
inductive Chain (fl : Flags) (w : World) : List Nat → List Rec → List Rec → Prop
  | nil (L : List Rec) : Chain fl w [] L L
  | cons {k : Nat} {ks : List Nat} {L M F : List Rec} :
      ResumeStep fl w L k M → Chain fl w ks M F → Chain fl w (k :: ks) L F

/-- the number of leading records of `L` whose text is completely present in `data` (a record counts as soon as its last
byte is there: the repair step supplies a missing newline): the maximal prefix of complete records of a cut file -/
def nCompleteB (c : Codec) : List Rec → Bytes → Nat
  | [], _ => 0
  | r :: rs, data =>
    if (c.enc r).isPrefixOf data then 1 + nCompleteB c rs (data.drop ((c.enc r).length + 1)) else 0

/-- one interruption at FILE level: the file `f` is cut after `k` bytes, the experiment is run on it again and completes
(any arrival order), leaving the file `f'` -/
def ByteStep (fl : Flags) (w : World) (f : Bytes) (k : Nat) (f' : Bytes) : Prop :=
  ∃ R app, restore fl w.c (some (f.take k)) = some R ∧
    app.Perm ((makeTasks fl.finishedFix R.K w.triples).filterMap w.out) ∧
    (finish w.c R (makeTasks fl.finishedFix R.K w.triples) (preamble fl w.ver w.exp R.K) app).file = f'

/-- interruptions in a row at FILE level: every run is killed after `kᵢ` bytes of the file it would have left -/
inductive ByteChain (fl : Flags) (w : World) : List Nat → Bytes → Bytes → Prop
  | nil (f : Bytes) : ByteChain fl w [] f f
  | cons {k : Nat} {ks : List Nat} {f g h : Bytes} :
      ByteStep fl w f k g → ByteChain fl w ks g h → ByteChain fl w (k :: ks) f h

/-! ### entry point: `Experiment.run(result_file)` and `Result.from_file(result_file)` -/

structure PathInfo where
  /-- the path string handed to `run` (relative or absolute) -/
  name : Bytes
  /-- the directory of the path exists -/
  dirExists : Bool
  /-- the bytes of the file when it exists -/
  file : Option Bytes
  deriving Repr

/-- what the restore branch gets to see: `none` = `run` raises (missing directory: the sink can not create the file and the
final read finds none; unreadable gzip), `some none` = no file, `some (some text)` = the (decompressed) text -/
def entryText (fl : Flags) (isGz : GzPred) (scan : MScan) (p : PathInfo) : Option (Option Bytes) :=
  if !p.dirExists then none
  else match p.file with
    | none => some none
    | some data => if isGz.eval p.name then (gzText fl scan data).map some else some (some data)

def runEntry (fl : Flags) (w : World) (isGz : GzPred) (scan : MScan) (p : PathInfo) : Option Outcome :=
  match entryText fl isGz scan p with
  | none => none
  | some f => resume fl w f

/-- `Result.from_file(path)`: DiskSource (gzip by name) + TransactionDecode + TransactionResult; `none` = raises -/
def fromFile (c : Codec) (isGz : GzPred) (scan : MScan) (name data : Bytes) : Option (List Rec) :=
  if isGz.eval name then (gunzip scan data).bind (decodeAll c) else decodeAll c data

/-- every `I` record of the experiment carries at least one row -/
def NonEmptyI (w : World) : Prop :=
  ∀ r ∈ w.universe, ∀ e l v, r.key = Key.int e l v → 0 < r.rows

/-! ### Phase 4: the member scan of `_drop_torn_tail` as it is written (chunked reads, `unused_data` arithmetic)

```
good,member = 0,zlib.decompressobj(31)
for chunk in iter(lambda: f.read(4096), b''):
    try: member.decompress(chunk)
    except zlib.error: break
    if member.eof:
        good = f.tell()-len(member.unused_data)
        f.seek(good)
        member = zlib.decompressobj(31)
f.truncate(good)
```
A `decompressobj` is abstract: what it reports is a function of ALL bytes fed to it since it was created (zlib's streaming
contract, trusted): `eof` after the first `n` of them (the rest is `unused_data`), `more` input needed, or `zlib.error`. -/

inductive Feed where
  /-- `member.eof`: the member is complete after `n` of the bytes fed; `payload` is what it decompressed to -/
  | eof (payload : Bytes) (n : Nat)
  /-- no error, not at the end of the member yet -/
  | more
  /-- `zlib.error` -/
  | error
  deriving DecidableEq, Repr

abbrev ZScan := Bytes → Feed

/-- the one-shot scanner of the abstract member split that belongs to a streaming decompressor -/
def toMScan (z : ZScan) : MScan := fun b =>
  match z b with
  | .eof p n => some (p, n)
  | _ => none

/-- the loop; state = (`good`, file position `pos`); the decompressor was created at offset `good` and has been fed
`data[good:pos]`.  The guard on `good'` can not fail for a decompressor that satisfies `ZLaws` (case 5 of `chunkLoop_eq`);
it is there to make the definition total for arbitrary `z`. -/
def chunkLoop (z : ZScan) (c : Nat) (data : Bytes) (good pos : Nat) : Nat :=
  let chunk := (data.drop pos).take c                      -- f.read(c)
  if hch : chunk.isEmpty then good                         -- sentinel b'' ; then f.truncate(good)
  else
    let tell := pos + chunk.length                         -- f.tell() after the read
    let fed := (data.drop good).take (tell - good)         -- everything `member` has been fed
    match z fed with
    | .error => good                                       -- except zlib.error: break
    | .more => chunkLoop z c data good tell
    | .eof _ n =>
      let unused := fed.drop n                             -- member.unused_data
      let good' := tell - unused.length                    -- good = f.tell()-len(member.unused_data)
      if good < good' ∧ good' ≤ tell then chunkLoop z c data good' good'   -- f.seek(good); new decompressobj
      else good
termination_by (data.length - good, data.length - pos)
decreasing_by
  · have h1 : chunk.length ≤ data.length - pos := by
      show ((data.drop pos).take c).length ≤ _
      rw [List.length_take, List.length_drop]; exact Nat.min_le_right _ _
    have h2 : 0 < chunk.length := List.length_pos_iff.mpr (fun e => hch (by rw [e]; rfl))
    apply Prod.Lex.right
    show data.length - (pos + chunk.length) < data.length - pos
    omega
  · rename_i hg
    have h1 : chunk.length ≤ data.length - pos := by
      show ((data.drop pos).take c).length ≤ _
      rw [List.length_take, List.length_drop]; exact Nat.min_le_right _ _
    have h2 : 0 < chunk.length := List.length_pos_iff.mpr (fun e => hch (by rw [e]; rfl))
    apply Prod.Lex.left
    show data.length - good' < data.length - good
    have : tell = pos + chunk.length := rfl
    omega

/-- `_drop_torn_tail`, gz branch, with read size `c`: the size the file is truncated to -/
def chunkScan (z : ZScan) (c : Nat) (data : Bytes) : Nat := chunkLoop z c data 0 0

/-- what the loop needs from zlib: once a member is complete after `n` bytes, it stays so whatever follows, `n` is positive
and within what was fed, and before the `n`-th byte the decompressor asks for more (no error, no early end) -/
structure ZLaws (z : ZScan) : Prop where
  eof_pos : ∀ b p n, z b = .eof p n → 0 < n ∧ n ≤ b.length
  eof_ext : ∀ b p n, z b = .eof p n → ∀ rest, z (b.take n ++ rest) = .eof p n
  eof_more : ∀ b p n, z b = .eof p n → ∀ k, k < n → z (b.take k) = .more

/-- the concrete streaming decompressor of the driver: complete table member at the front → `eof`; a proper prefix of a
table member → `more`; anything else → `error` -/
def tableZ (tbl : List Member) : ZScan := fun data =>
  match tableScan tbl data with
  | some (p, n) => .eof p n
  | none => if tbl.any (fun m => data.isPrefixOf m.bytes) then .more else .error

/-! ### Phase 4: the shape test of `Experiment.run` against a restored log

```
n_given_lrns = len(set([l for _,l,_ in self._triples])); n_given_envs = len(set([e for e,_,_ in self._triples]))
lrn_mismatch = restored and n_given_lrns != restored.experiment.get('n_learners',n_given_lrns)
env_mismatch = restored and n_given_envs != restored.experiment.get('n_environments',n_given_envs)
if lrn_mismatch or env_mismatch: raise CobaException("The experiment does not match the given logs")
```
The exception is raised inside the `try` of `run`: it is logged, nothing is evaluated or written, and the file is read back. -/

/-- `len(set(xs))` -/
def nDistinct : List Nat → Nat
  | [] => 0
  | x :: xs => if xs.contains x then nDistinct xs else nDistinct xs + 1

/-- (`n_learners`, `n_environments`) of an experiment -/
def givenShape (triples : List (Nat × Nat × Nat)) : Nat × Nat :=
  (nDistinct (triples.map (fun t => t.2.1)), nDistinct (triples.map (fun t => t.1)))

/-- `restored.experiment`: the experiment line that counts is the last one (`dict.update`); `shapeOf` reads
(`n_learners`, `n_environments`) from its text, each `none` when the key is missing (`.get(key, given)`) -/
def restoredShape (shapeOf : Rec → Option Nat × Option Nat) (K : List Rec) : Option Nat × Option Nat :=
  match (K.filter (fun r => decide (r.key = Key.exp))).getLast? with
  | some r => shapeOf r
  | none => (none, none)

/-- `lrn_mismatch or env_mismatch`; nothing restored (`restored` is None) never mismatches -/
def shapeMismatch (shapeOf : Rec → Option Nat × Option Nat) (given : Nat × Nat) (K : List Rec) : Bool :=
  !K.isEmpty &&
    ((match (restoredShape shapeOf K).1 with | some n => decide (n ≠ given.1) | none => false) ||
     (match (restoredShape shapeOf K).2 with | some n => decide (n ≠ given.2) | none => false))

/-- `run` with the shape test: on a mismatch the pipeline is not run (no task, no record; the exception is logged) and the
file is read back as it is after the repair step -/
def resumeChecked (fl : Flags) (w : World) (shapeOf : Rec → Option Nat × Option Nat) (given : Nat × Nat)
    (file : Option Bytes) : Option (Bool × Outcome) :=
  match restore fl w.c file with
  | none => none
  | some R =>
    if shapeMismatch shapeOf given R.K then
      some (true, { restored := R, tasks := [], appended := [], file := R.file1, final := decodeAll w.c R.file1 })
    else
      let tasks := makeTasks fl.finishedFix R.K w.triples
      some (false, finish w.c R tasks (preamble fl w.ver w.exp R.K) (tasks.filterMap w.out))

/-! ### Phase 4: ChunkTasks / ProcessTasks — the order in which a single-process run executes the tasks

`ChunkTasks._chunks`: tasks without environment first (one chunk each, in order), then the tasks of environments that are not
chunk()ed (one chunk each, in order), then the groups of tasks that share a `Chunk` pipe (dict in insertion order), the groups
sorted by `min(env_id)`, each group sorted by `(env_id, lrn_id or -1)` and cut into batches of `max_tasks`.
`ProcessTasks.filter`: `sorted(chunk, key=(env_id or -1, lrn_id or -1), reverse=True)` and `chunk.pop()` from the end, i.e.
ascending with ties (same environment and learner, different evaluators) in REVERSE order.
For the property only `runOrder_perm` matters (the theorems hold for every arrival order); the order itself is compared with the
real record order of single-process runs. -/

/-- sort key of ChunkTasks (`chunk_sorter`) and ProcessTasks: `(env_id or -1, lrn_id or -1)`, shifted by one -/
def Task.ord : Task → Nat × Nat
  | .penv i => (i + 1, 0)
  | .plrn i => (0, i + 1)
  | .pval _ => (0, 0)
  | .eval e l _ => (e + 1, l + 1)

def ordLt (a b : Nat × Nat) : Bool := a.1 < b.1 || (a.1 == b.1 && a.2 < b.2)

/-- the environment id of a task that has an environment -/
def Task.envId : Task → Option Nat
  | .penv i => some i
  | .eval e _ _ => some e
  | _ => none

/-- stable insertion (`sorted` is stable): `t` goes in front of the first element that is not smaller -/
def insertOrd (lt : Task → Task → Bool) (t : Task) : List Task → List Task
  | [] => [t]
  | u :: us => if lt u t then u :: insertOrd lt t us else t :: u :: us

/-- `sorted(tasks, key=…)` -/
def sortOrd (lt : Task → Task → Bool) : List Task → List Task
  | [] => []
  | t :: ts => insertOrd lt t (sortOrd lt ts)

/-- the tasks that do not belong to group `k` -/
def dropGroup (ck : Task → Nat) (k : Nat) (l : List Task) : List Task := l.filter (fun u => !(ck u == k))

theorem dropGroup_length (ck : Task → Nat) (k : Nat) (l : List Task) : (dropGroup ck k l).length ≤ l.length :=
  List.length_filter_le _ _

/-- dict of lists in insertion order: the group of the first task, then the groups of the rest -/
def groupsOf (ck : Task → Nat) : List Task → List (List Task)
  | [] => []
  | t :: ts => ((t :: ts).filter (fun u => ck u == ck t)) :: groupsOf ck (dropGroup ck (ck t) ts)
termination_by l => l.length
decreasing_by
  simp only [List.length_cons]
  exact Nat.lt_succ_of_le (dropGroup_length _ _ _)

/-- `_max_chunker`: batches of `m` tasks (`m = 0`: `max_tasks or None`, one batch) -/
def batches (m : Nat) (l : List Task) : List (List Task) :=
  if m = 0 then (if l.isEmpty then [] else [l]) else go m l l.length
where
  go (m : Nat) (l : List Task) : Nat → List (List Task)
    | 0 => []
    | f + 1 => if l.isEmpty then [] else l.take m :: go m (l.drop m) f

/-- insertion sort of the groups by `min(env_id)` (stable) -/
def insertGrp (key : List Task → Nat) (g : List Task) : List (List Task) → List (List Task)
  | [] => [g]
  | h :: hs => if key h < key g then h :: insertGrp key g hs else g :: h :: hs

def sortGrp (key : List Task → Nat) : List (List Task) → List (List Task)
  | [] => []
  | g :: gs => insertGrp key g (sortGrp key gs)

def minEnv (g : List Task) : Nat := (g.filterMap Task.envId).foldl min ((g.filterMap Task.envId).headD 0)

/-- `ChunkTasks._chunks`: `chunkOf e` = the Chunk pipe of environment `e` (`none`: `'not_chunked'`) -/
def chunkTasks (chunkOf : Nat → Option Nat) (m : Nat) (tasks : List Task) : List (List Task) :=
  let sans := tasks.filter (fun t => t.envId.isNone)
  let withE := tasks.filter (fun t => t.envId.isSome)
  let ck : Task → Option Nat := fun t => t.envId.bind chunkOf
  let notChunked := withE.filter (fun t => (ck t).isNone)
  let chunked := withE.filter (fun t => (ck t).isSome)
  let groups := groupsOf (fun t => (ck t).getD 0) chunked
  let lt := fun a b => ordLt a.ord b.ord
  sans.map (fun t => [t]) ++ (notChunked.map (fun t => [t]) ++
    (sortGrp minEnv groups).flatMap (fun g => batches m (sortOrd lt g)))

/-- `ProcessTasks.filter`: `sorted(chunk, key, reverse=True)` then `pop()` from the end: ascending, ties in REVERSE order -/
def processOrder (chunk : List Task) : List Task := sortOrd (fun a b => ordLt a.ord b.ord) chunk.reverse

/-- the order in which a single-process run executes the tasks (and writes their records) -/
def runOrder (chunkOf : Nat → Option Nat) (m : Nat) (tasks : List Task) : List Task :=
  (chunkTasks chunkOf m tasks).flatMap processOrder


/-! ### Phase 4: universal newlines

DiskSource opens the file in text mode with the default `newline=None`: on reading, `\r\n` and a lone `\r` are both turned into
`\n`, so a raw `\r` inside a record text would end a line.  (`json.dumps` escapes it; `_drop_torn_tail` works on the bytes.) -/

/-- `"\r"` -/
def CR : Nat := 13

/-- text-mode reading with universal newlines (`open(path)` / `gzip.open(path,'rt')`, `newline=None`): `\r\n` and a lone `\r`
both arrive as `\n` -/
def univAux : Bool → Bytes → Bytes
  | _, [] => []
  | prevCR, b :: bs =>
    if b = CR then NL :: univAux true bs
    else if b = NL ∧ prevCR = true then univAux false bs
    else b :: univAux false bs

def univ (file : Bytes) : Bytes := univAux false file

/-- what TransactionDecode really sees: the lines of the translated text -/
def linesU (file : Bytes) : List Bytes := lines (univ file)

def decodeAllU (c : Codec) (file : Bytes) : Option (List Rec) :=
  match decodeLines c (linesU file) with
  | some (r :: rs) => if r.key = Key.ver then some (r :: rs) else none
  | _ => none


/-! ### Phase 5: `_max_chunker` as a small program, the write loop of `DiskSink`, a windowed torn-tail repair

`ChunkTasks._max_chunker` is extracted from the source by the translator (ast) as a program over four statements:
```
chunk = iter(chunk)                                  iterInit
batch = list(islice(chunk,max_tasks))                takeBatch
while batch != []:                                   whileNonEmpty [
    yield batch                                        yieldBatch,
    batch = list(islice(chunk,max_tasks))              takeBatch ]
```
`max_tasks = 0` stands for `None` (`max_tasks or None`): `islice(it, None)` takes everything. -/

inductive CSimple where
  | iterInit | takeBatch | yieldBatch
  deriving DecidableEq, Repr

inductive CStmt where
  | simple (s : CSimple)
  | whileNonEmpty (body : List CSimple)
  deriving DecidableEq, Repr

structure CState where
  it : List Task
  batch : List Task
  out : List (List Task)

def stepSimple (m : Nat) : CSimple → CState → CState
  | .iterInit, s => s
  | .takeBatch, s => if m = 0 then { s with batch := s.it, it := [] } else { s with batch := s.it.take m, it := s.it.drop m }
  | .yieldBatch, s => { s with out := s.out ++ [s.batch] }

def execBody (m : Nat) (body : List CSimple) (s : CState) : CState := body.foldl (fun s st => stepSimple m st s) s

def execWhile (m : Nat) (body : List CSimple) : Nat → CState → CState
  | 0, s => s
  | f + 1, s => if s.batch.isEmpty then s else execWhile m body f (execBody m body s)

def execProg (m fuel : Nat) : List CStmt → CState → CState
  | [], s => s
  | .simple st :: r, s => execProg m fuel r (stepSimple m st s)
  | .whileNonEmpty b :: r, s => execProg m fuel r (execWhile m b fuel s)

/-- the batches a chunker program yields for `max_tasks = m` on the task list `l` -/
def runChunker (prog : List CStmt) (m : Nat) (l : List Task) : List (List Task) :=
  (execProg m l.length prog ⟨l, [], []⟩).out

/-- `_max_chunker` as the model reads it -/
def maxChunkerProg : List CStmt :=
  [.simple .iterInit, .simple .takeBatch, .whileNonEmpty [.yieldBatch, .takeBatch]]

/-- `DiskSink.write(lines)` with `batch = b`: the groups of lines written inside one `with self:` each, i.e. (for a sink
that is not entered from outside) per open/close of the file = per gzip member.
`while self._unfinished(batch): batch = self._get_batch(lines); with self: for line in batch: write(line+'\n'); flush()`;
`_unfinished`: not started, or the last batch was a list of exactly `b` lines — so after a full last batch the loop goes round
once more with an EMPTY batch (for `.gz`: an empty member).  `b = 0` is `batch=None`: one lazy batch with everything. -/
def sinkWrite (b : Nat) (lines : List Bytes) : List (List Bytes) :=
  if b = 0 then [lines] else go b (lines.length + 1) lines
where
  go (b : Nat) : Nat → List Bytes → List (List Bytes)
    | 0, _ => []
    | f + 1, l => if (l.take b).length = b then l.take b :: go b f (l.drop b) else [l.take b]

/-- the plain branch of `_drop_torn_tail` if it looked only at the last `W` bytes of the file (the committed code reads the
whole file: `W = file.length`); what lies before the window is left as it is -/
def repairWin (c : Codec) (W : Nat) (file : Bytes) : Bytes :=
  file.take (file.length - W) ++ repair c (file.drop (file.length - W))


/-- spec (phase 5, multi-process runs): `out` is an interleaving of the sequences `ls` — every sequence keeps its own order,
nothing else is known about the schedule.  For CobaMultiprocessor: one sequence per chunk (a chunk is processed by ONE worker,
sequentially, and a `multiprocessing.Queue` keeps the order of the items one process puts). -/
inductive Merge {α : Type} : List (List α) → List α → Prop
  | done (ls : List (List α)) : (∀ l ∈ ls, l = []) → Merge ls []
  | step (pre post : List (List α)) (x : α) (l out : List α) :
      Merge (pre ++ l :: post) out → Merge (pre ++ (x :: l) :: post) (x :: out)

/-! ## Phase 6: which execution configuration a (re-)run uses

`Experiment` keeps three settings (`processes`, `maxchunksperchild`, `maxtasksperchunk`).  Each can come from three places: an
earlier `.config(...)` call (stored in `self._x`), the argument of `run(...)`, and the PROCESS-GLOBAL default
`CobaContext.experiment.x`.  `run` first calls `self.config(processes, maxchunksperchild, maxtasksperchunk)` with ITS OWN arguments
(`config` overwrites all three fields, also with `None` — so what an earlier `.config()` call stored is lost), then reads the
properties `self._x if self._x is not None else CobaContext.experiment.x`. -/

/-- one setting: what an earlier `.config()` left, the argument of `run`, the process-global default -/
structure CfgRoute where
  stored : Option Nat
  arg    : Option Nat
  ctx    : Nat
deriving Repr, DecidableEq

/-- `Experiment.config`: `self._x = x` — the field is overwritten, also by `None` -/
def configCall (_old new : Option Nat) : Option Nat := new

/-- the property: `self._x if self._x is not None else CobaContext.experiment.x` -/
def cfgProp (stored : Option Nat) (ctx : Nat) : Nat :=
  match stored with
  | some v => v
  | none => ctx

/-- the value `run` works with: `self.config(arg…)`, then the property -/
def runCfg (r : CfgRoute) : Nat := cfgProp (configCall r.stored r.arg) r.ctx

/-- `is_multiproc = mp > 1 or mc != 0` -/
def isMultiproc (mp mc : Nat) : Bool := decide (1 < mp) || !(mc == 0)

/-- the three settings of one run -/
structure RunConfig where
  mp : CfgRoute
  mc : CfgRoute
  mt : CfgRoute
deriving Repr, DecidableEq

/-- `mp,mc,mt = self.processes,self.maxchunksperchild,self.maxtasksperchunk` after `self.config(...)` -/
def RunConfig.eff (c : RunConfig) : Nat × Nat × Nat := (runCfg c.mp, runCfg c.mc, runCfg c.mt)

/-- the order in which a SINGLE-process run under configuration `c` hands the tasks on: `ChunkTasks(mt)` with the EFFECTIVE
`maxtasksperchunk` (0 = `None`: `max_tasks or None`), each chunk through `ProcessTasks` -/
def runOrderCfg (chunkOf : Nat → Option Nat) (c : RunConfig) (tasks : List Task) : List Task :=
  runOrder chunkOf (runCfg c.mt) tasks

/-! ### the concrete codec of the driver: a table of (record, text) pairs -/

def tableEnc (tbl : List (Rec × Bytes)) (r : Rec) : Bytes :=
  match tbl.find? (fun p => decide (p.1 = r)) with
  | some p => p.2
  | none => []

def tableDec (tbl : List (Rec × Bytes)) (b : Bytes) : Option Rec :=
  if balanced b then (tbl.find? (fun p => decide (p.2 = b))).map (·.1) else none

def tableCodec (tbl : List (Rec × Bytes)) : Codec := ⟨tableEnc tbl, tableDec tbl⟩

/-- run-time checkable conditions under which `tableCodec` is a lawful codec -/
def tableOK (tbl : List (Rec × Bytes)) : Bool :=
  tbl.all (fun p => balanced p.2 && decide (NoNL p.2)) &&
  decide ((tbl.map (·.1)).Nodup) && decide ((tbl.map (·.2)).Nodup)

/-- the record a task writes: the one carrying the task's id -/
def tableOut (tbl : List (Rec × Bytes)) (t : Task) : Option Rec :=
  (tbl.find? (fun p => decide (p.1.key = t.key))).map (·.1)

def tableWorld (tbl : List (Rec × Bytes)) (ver exp : Rec) (triples : List (Nat × Nat × Nat)) : World :=
  ⟨tableCodec tbl, ver, exp, tableOut tbl, triples⟩

/-- run-time checkable conditions under which `tableWorld` satisfies `World.OK` -/
def tableWorldOK (tbl : List (Rec × Bytes)) (ver exp : Rec) (triples : List (Nat × Nat × Nat)) : Bool :=
  tableOK tbl && decide (ver.key = Key.ver) && decide (exp.key = Key.exp) &&
  decide (ver ∈ tbl.map (·.1)) && decide (exp ∈ tbl.map (·.1)) && decide triples.Nodup

end Coba.C02
