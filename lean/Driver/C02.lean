import CobaVerif.Driver.Loop
-- stub: replaced when the C02 model exists
def main : IO Unit := Coba.J.runLoop (fun _ => .error "C02 driver not implemented")
