import CobaVerif.Driver.Loop
import CobaVerif.Driver.C02
def main : IO Unit := Coba.J.runLoop Coba.C02.Driver.handle
