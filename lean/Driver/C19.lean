import CobaVerif.Driver.Loop
import CobaVerif.Driver.C19
def main : IO Unit := Coba.J.runLoop Coba.C19.Driver.handle
