import CobaVerif.Driver.Loop
-- stub: replaced when the C19 model exists
def main : IO Unit := Coba.J.runLoop (fun _ => .error "C19 driver not implemented")
