import CobaVerif.Driver.Loop
import CobaVerif.Driver.C17
def main : IO Unit := Coba.J.runLoop Coba.C17.Driver.handle
