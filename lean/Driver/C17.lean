import CobaVerif.Driver.Loop
-- stub: replaced when the C17 model exists
def main : IO Unit := Coba.J.runLoop (fun _ => .error "C17 driver not implemented")
