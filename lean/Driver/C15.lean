import CobaVerif.Driver.Loop
-- stub: replaced when the C15 model exists
def main : IO Unit := Coba.J.runLoop (fun _ => .error "C15 driver not implemented")
