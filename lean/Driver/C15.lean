import CobaVerif.Driver.Loop
import CobaVerif.Driver.C15
def main : IO Unit := Coba.J.runLoop Coba.C15.Driver.handle
