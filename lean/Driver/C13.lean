import CobaVerif.Driver.Loop
-- stub: replaced when the C13 model exists
def main : IO Unit := Coba.J.runLoop (fun _ => .error "C13 driver not implemented")
