import CobaVerif.Driver.Loop
import CobaVerif.Driver.C13
def main : IO Unit := Coba.J.runLoop Coba.C13.Driver.handle
