import CobaVerif.Driver.Loop
-- stub: replaced when the C10 model exists
def main : IO Unit := Coba.J.runLoop (fun _ => .error "C10 driver not implemented")
