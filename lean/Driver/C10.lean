import CobaVerif.Driver.Loop
import CobaVerif.Driver.C10
def main : IO Unit := Coba.J.runLoop Coba.C10.Driver.handle
