import CobaVerif.Driver.Loop
-- stub: replaced when the C04 model exists
def main : IO Unit := Coba.J.runLoop (fun _ => .error "C04 driver not implemented")
