import CobaVerif.Driver.Loop
import CobaVerif.Driver.C04
def main : IO Unit := Coba.J.runLoop Coba.C04.Driver.handle
