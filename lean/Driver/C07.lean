import CobaVerif.Driver.Loop
-- stub: replaced when the C07 model exists
def main : IO Unit := Coba.J.runLoop (fun _ => .error "C07 driver not implemented")
