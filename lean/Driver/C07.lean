import CobaVerif.Driver.Loop
import CobaVerif.Driver.C07
def main : IO Unit := Coba.J.runLoop Coba.C07.Driver.handle
