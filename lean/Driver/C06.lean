import CobaVerif.Driver.Loop
-- stub: replaced when the C06 model exists
def main : IO Unit := Coba.J.runLoop (fun _ => .error "C06 driver not implemented")
