import CobaVerif.Driver.Loop
import CobaVerif.Driver.C06
def main : IO Unit := Coba.J.runLoop Coba.C06.Driver.handle
