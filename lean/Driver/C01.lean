import CobaVerif.Driver.Loop
import CobaVerif.Driver.C01
def main : IO Unit := Coba.J.runLoop Coba.C01.Driver.handle
