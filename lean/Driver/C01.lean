import CobaVerif.Driver.Loop
-- stub: replaced when the C01 model exists
def main : IO Unit := Coba.J.runLoop (fun _ => .error "C01 driver not implemented")
