import CobaVerif.Driver.Loop
import CobaVerif.Driver.C05
def main : IO Unit := Coba.J.runLoop Coba.C05.Driver.handle
