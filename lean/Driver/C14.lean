import CobaVerif.Driver.Loop
-- stub: replaced when the C14 model exists
def main : IO Unit := Coba.J.runLoop (fun _ => .error "C14 driver not implemented")
