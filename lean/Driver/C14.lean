import CobaVerif.Driver.Loop
import CobaVerif.Driver.C14
def main : IO Unit := Coba.J.runLoop Coba.C14.Driver.handle
