import CobaVerif.Driver.Loop
-- stub: replaced when the C20 model exists
def main : IO Unit := Coba.J.runLoop (fun _ => .error "C20 driver not implemented")
