import CobaVerif.Driver.Loop
import CobaVerif.Driver.C20
def main : IO Unit := Coba.J.runLoop Coba.C20.Driver.handle
