import CobaVerif.Driver.Loop
-- stub: replaced when the C16 model exists
def main : IO Unit := Coba.J.runLoop (fun _ => .error "C16 driver not implemented")
