import CobaVerif.Driver.Loop
import CobaVerif.Driver.C16
def main : IO Unit := Coba.J.runLoop Coba.C16.Driver.handle
