import CobaVerif.Driver.Loop
import CobaVerif.Driver.C12
def main : IO Unit := Coba.J.runLoop Coba.C12.Driver.handle
