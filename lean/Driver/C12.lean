import CobaVerif.Driver.Loop
-- stub: replaced when the C12 model exists
def main : IO Unit := Coba.J.runLoop (fun _ => .error "C12 driver not implemented")
