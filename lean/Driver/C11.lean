import CobaVerif.Driver.Loop
-- stub: replaced when the C11 model exists
def main : IO Unit := Coba.J.runLoop (fun _ => .error "C11 driver not implemented")
