import CobaVerif.Driver.Loop
import CobaVerif.Driver.C11
def main : IO Unit := Coba.J.runLoop Coba.C11.Driver.handle
