/-
Line-protocol driver: one JSON request per line on stdin, one JSON answer per line on stdout.
It evaluates the *same definitions* the theorems in `CobaVerif/Props` are about.
-/
import CobaVerif.Driver.C05
open Lean

def handlers : List (String × (Json → Except String Json)) := [
  ("C05", Coba.C05.Driver.handle)
]

def answer (line : String) : String :=
  match Json.parse line with
  | .error e => (Json.mkObj [("error", Json.str s!"parse: {e}")]).compress
  | .ok req =>
    let id := match req.getObjVal? "id" with | .ok v => v | .error _ => Json.null
    match req.getObjVal? "prop" with
    | .error _ => (Json.mkObj [("id", id), ("error", "no prop")]).compress
    | .ok p =>
      match p.getStr? with
      | .error _ => (Json.mkObj [("id", id), ("error", "bad prop")]).compress
      | .ok p =>
        match handlers.lookup p with
        | none => (Json.mkObj [("id", id), ("error", Json.str s!"no handler {p}")]).compress
        | some h =>
          match h req with
          | .ok r => (Json.mkObj [("id", id), ("ok", r)]).compress
          | .error e => (Json.mkObj [("id", id), ("error", Json.str e)]).compress

partial def loop (inp out : IO.FS.Stream) : IO Unit := do
  let line ← inp.getLine
  if line.isEmpty then return ()
  let l := line.trimAscii.toString
  if !l.isEmpty then
    out.putStrLn (answer l)
    out.flush
  loop inp out

def main : IO Unit := do loop (← IO.getStdin) (← IO.getStdout)
