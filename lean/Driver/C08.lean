import CobaVerif.Driver.Loop
import CobaVerif.Driver.C08
def main : IO Unit := Coba.J.runLoop Coba.C08.Driver.handle
