import CobaVerif.Driver.Loop
-- stub: replaced when the C08 model exists
def main : IO Unit := Coba.J.runLoop (fun _ => .error "C08 driver not implemented")
