import CobaVerif.Driver.Loop
-- stub: replaced when the C09 model exists
def main : IO Unit := Coba.J.runLoop (fun _ => .error "C09 driver not implemented")
