import CobaVerif.Driver.Loop
import CobaVerif.Driver.C09
def main : IO Unit := Coba.J.runLoop Coba.C09.Driver.handle
