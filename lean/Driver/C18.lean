import CobaVerif.Driver.Loop
import CobaVerif.Driver.C18
def main : IO Unit := Coba.J.runLoop Coba.C18.Driver.handle
