import CobaVerif.Driver.Loop
-- stub: replaced when the C18 model exists
def main : IO Unit := Coba.J.runLoop (fun _ => .error "C18 driver not implemented")
