import CobaVerif.Driver.Loop
-- stub: replaced when the C03 model exists
def main : IO Unit := Coba.J.runLoop (fun _ => .error "C03 driver not implemented")
