import CobaVerif.Driver.Loop
import CobaVerif.Driver.C03
def main : IO Unit := Coba.J.runLoop Coba.C03.Driver.handle
