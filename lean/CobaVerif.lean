import CobaVerif.Props.C05
import CobaVerif.Driver.C05
